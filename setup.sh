#!/bin/sh
# Offline setup: nothing is downloaded or compiled; verify that the tools the checks need are present.
set -e
cd "$(dirname "$0")"
mkdir -p out evidence
command -v java >/dev/null
test -f /opt/veriftools/tla/tla2tools.jar
/venv/bin/python -c "import numpy, scipy, cvxpy" 
echo "setup ok"
