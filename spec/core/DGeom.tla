------------------------------- MODULE DGeom -------------------------------
(* Exact geometry of gamuts.  A gamut is the zonotope                        *)
(*      Z = { M x : lb <= x <= ub }        (M : d x n integer matrix)        *)
(* in "normalised" coordinates r (see Convex.tla for how adaptation K and    *)
(* baseline are folded into M and r).  lb, ub, r share one scale.  INF as an *)
(* upper bound means "unbounded above".                                      *)
EXTENDS DNum

INF == 1000000

Pos(idx, c) == CHOOSE k \in 1..Len(idx) : idx[k] = c
InIdx(idx, c) == \E k \in 1..Len(idx) : idx[k] = c

(* 2^n corners of the box in the product order of the implementation:        *)
(* itertools.product([0,1], repeat=n) -> first coordinate varies slowest.    *)
Corner(k, n, lb, ub) == [j \in 1..n |-> IF ((k \div (2 ^ (n - j))) % 2) = 0 THEN lb[j] ELSE ub[j]]
Corners(lb, ub) == LET n == Len(lb) IN [k \in 1..(2 ^ n) |-> Corner(k - 1, n, lb, ub)]
CornerSet(lb, ub) == {Corners(lb, ub)[k] : k \in 1..(2 ^ Len(lb))}

(* reduce a homogeneous point [num, den] to lowest terms                      *)
RECURSIVE GcdSeq(_, _)
GcdSeq(s, k) == IF k = 0 THEN 0 ELSE Gcd(s[k], GcdSeq(s, k - 1))
PNorm(num, den) == LET g == Gcd(den, GcdSeq(num, Len(num)))
                   IN [num |-> [j \in 1..Len(num) |-> num[j] \div g], den |-> den \div g]

(* ---- V-form: vertices (basic feasible solutions) of                        *)
(*      S_r = { x : M x = r, lb <= x <= ub }   (finite bounds, rank M = d)     *)
SolVertsFor(M, r, lb, ub, fr) ==
  LET d == Len(M)
      n == Len(M[1])
      fx == Complement(n, fr)
      MF == SubCols(M, fr)
      dt == Det(MF)
      s == Sgn(dt)
      a == Abs(dt)
  IN IF dt = 0 THEN {}
     ELSE UNION {
       LET xfix == [k \in 1..Len(fx) |-> IF asg[k] = 0 THEN lb[fx[k]] ELSE ub[fx[k]]]
           rhs == IF Len(fx) = 0 THEN r ELSE VSub(r, MatVec(SubCols(M, fx), xfix))
           cr == [j \in 1..d |-> s * Det(ReplaceCol(MF, j, rhs))]
           (* a source without an upper bound cannot sit at it: INF is a marker, not a value (checked first) *)
           ok == /\ \A k \in 1..Len(fx) : ~(asg[k] = 1 /\ ub[fx[k]] = INF)
                 /\ \A j \in 1..d : cr[j] >= lb[fr[j]] * a /\ (ub[fr[j]] = INF \/ cr[j] <= ub[fr[j]] * a)
       IN IF ok THEN {PNorm([c \in 1..n |-> IF InIdx(fr, c) THEN cr[Pos(fr, c)] ELSE xfix[Pos(fx, c)] * a], a)}
          ELSE {}
       : asg \in [1..Len(fx) -> {0, 1}] }

SolVerts(M, r, lb, ub) ==
  UNION { SolVertsFor(M, r, lb, ub, fr) : fr \in KSubsets(Len(M[1]), Len(M)) }

InZ_V(M, r, lb, ub) == SolVerts(M, r, lb, ub) # {}

(* ---- H-form of the zonotope: facet normals are generalised cross products  *)
(* of d-1 generators; support function h(nu) = sum_j max(c_j lb_j, c_j ub_j). *)
ZonoNormals(M) ==
  LET d == Len(M)
      n == Len(M[1])
      MT == Transpose(M)
  IN IF d = 1 THEN {<<1>>}
     ELSE {Cross(SubRows(MT, idx), d) : idx \in KSubsets(n, d - 1)} \ {Vec(d, 0)}

SuppHi(M, nu, lb, ub) ==
  LET c == MatVec(Transpose(M), nu)
  IN SumTo([j \in 1..Len(c) |-> Max2(c[j] * lb[j], c[j] * ub[j])], Len(c))
SuppLo(M, nu, lb, ub) ==
  LET c == MatVec(Transpose(M), nu)
  IN SumTo([j \in 1..Len(c) |-> Min2(c[j] * lb[j], c[j] * ub[j])], Len(c))

InZ_H(M, r, lb, ub) ==
  \A nu \in ZonoNormals(M) :
     LET v == Dot(nu, r) IN SuppLo(M, nu, lb, ub) <= v /\ v <= SuppHi(M, nu, lb, ub)

StrictZ_H(M, r, lb, ub) ==
  \A nu \in ZonoNormals(M) :
     LET v == Dot(nu, r) IN SuppLo(M, nu, lb, ub) < v /\ v < SuppHi(M, nu, lb, ub)

(* facets once per system: [nu, lo, hi]; then classification per target is cheap *)
ZonoFacets(M, lb, ub) == {[nu |-> nu, lo |-> SuppLo(M, nu, lb, ub), hi |-> SuppHi(M, nu, lb, ub)] : nu \in ZonoNormals(M)}
ClassF(F, r) ==
  IF \E f \in F : LET v == Dot(f.nu, r) IN v < f.lo \/ v > f.hi THEN "exterior"
  ELSE IF \A f \in F : LET v == Dot(f.nu, r) IN f.lo < v /\ v < f.hi THEN "interior" ELSE "boundary"

(* thin gamuts (fewer generators than dimensions, independent columns):        *)
(* unique solve on an independent row subset + consistency of all rows          *)
ThinSolve(M, r) ==
  LET d == Len(M)
      n == Len(M[1])
      rows == CHOOSE ri \in KSubsets(d, n) : Det(SubRows(M, ri)) # 0
      MS == SubRows(M, rows)
      dt == Det(MS)
      rs == SubVec(r, rows)
      x == [j \in 1..n |-> Sgn(dt) * Det(ReplaceCol(MS, j, rs))]
  IN [x |-> x, den |-> Abs(dt), consistent |-> MatVec(M, x) = VScale(Abs(dt), r)]
ClassThin(M, r, lb, ub) ==
  LET s == ThinSolve(M, r)
      n == Len(M[1])
  IN IF ~s.consistent \/ \E j \in 1..n : s.x[j] < lb[j] * s.den \/ (ub[j] # INF /\ s.x[j] > ub[j] * s.den) THEN "exterior"
     ELSE IF \A j \in 1..n : s.x[j] > lb[j] * s.den /\ (ub[j] = INF \/ s.x[j] < ub[j] * s.den) THEN "interior" ELSE "boundary"

FullDim(M, lb, ub) ==
  LET n == Len(M[1])
      act == SortedSeq({j \in 1..n : lb[j] < ub[j]})
  IN Len(act) >= Len(M) /\ Rank(SubCols(M, act)) = Len(M)

(* class of a target with respect to a full-dimensional bounded gamut          *)
ClassZ(M, r, lb, ub) ==
  IF ~InZ_H(M, r, lb, ub) THEN "exterior"
  ELSE IF StrictZ_H(M, r, lb, ub) THEN "interior" ELSE "boundary"

(* smallest squared facet slack relative to the squared normal length:         *)
(* <<slack^2, |nu|^2>> minimal over all facets (interior / exterior margin^2)  *)
MarginSq(M, r, lb, ub) ==
  LET cand == UNION {
         LET v == Dot(nu, r)
             hi == SuppHi(M, nu, lb, ub)
             lo == SuppLo(M, nu, lb, ub)
             nn == Dot(nu, nu)
         IN {<<(hi - v) * (hi - v), nn>>, <<(v - lo) * (v - lo), nn>>} : nu \in ZonoNormals(M) }
  IN CHOOSE m \in cand : \A o \in cand : RLeq(m, o)

(* ---- cones (unbounded sources): c in cone(columns of M)?                     *)
InCone_V(M, c) ==
  LET d == Len(M)
      n == Len(M[1])
  IN \E fr \in KSubsets(n, d) :
       LET MF == SubCols(M, fr)
           dt == Det(MF)
       IN dt # 0 /\ \A j \in 1..d : Sgn(dt) * Det(ReplaceCol(MF, j, c)) >= 0

(* strictly inside the cone: positive combination of ALL generators exists.    *)
(* For rank-d generator sets: c strictly inside iff every facet inequality is  *)
(* strict.  Facets: normals nu = Cross of d-1 generators with all generators   *)
(* on one side.                                                                *)
ConeFacets(M) ==
  LET d == Len(M)
      n == Len(M[1])
      MT == Transpose(M)
      cands == IF d = 1 THEN {<<1>>, <<-1>>}
               ELSE UNION {LET nu == Cross(SubRows(MT, idx), d) IN {nu, VScale(-1, nu)} : idx \in KSubsets(n, d - 1)}
  IN {nu \in cands : nu # Vec(d, 0) /\ \A j \in 1..n : Dot(nu, MT[j]) >= 0}
InCone_H(M, c) == \A nu \in ConeFacets(M) : Dot(nu, c) >= 0
StrictCone_H(M, c) == \A nu \in ConeFacets(M) : Dot(nu, c) > 0
ClassCone(M, c) == IF ~InCone_H(M, c) THEN "exterior"
                   ELSE IF StrictCone_H(M, c) THEN "interior" ELSE "boundary"

(* ---- convex hull of a finite integer point cloud (full-dimensional) -----------*)
(* facets [nu, h]: nu.x <= h for every point, equality on d affinely independent   *)
(* points; nu reduced to lowest terms so that equal facets coincide                 *)
NuNorm(nu, h) == LET g == Gcd(h, GcdSeq(nu, Len(nu)))
                 IN IF g = 0 THEN [nu |-> nu, h |-> h] ELSE [nu |-> [i \in 1..Len(nu) |-> nu[i] \div g], h |-> h \div g]
HullFacets(P) ==
  LET pts == SortedVecs(P)
      m == Len(pts)
      d == Len(pts[1])
      cand == UNION {
         LET base == pts[idx[1]]
             dif == [k \in 1..(d - 1) |-> VSub(pts[idx[k + 1]], base)]
             nu == Cross(dif, d)
         IN IF nu = Vec(d, 0) THEN {}
            ELSE LET hp == Dot(nu, base)
                 IN (IF \A x \in P : Dot(nu, x) <= hp THEN {NuNorm(nu, hp)} ELSE {})
                    \cup (IF \A x \in P : Dot(nu, x) >= hp THEN {NuNorm(VScale(-1, nu), -hp)} ELSE {})
         : idx \in KSubsets(m, d) }
  IN cand
HullVerts(P) == LET F == HullFacets(P) IN {x \in P : Cardinality({f \in F : Dot(f.nu, x) = f.h}) >= Len(x)}
InHull(F, x) == \A f \in F : Dot(f.nu, x) <= f.h
StrictInHull(F, x) == \A f \in F : Dot(f.nu, x) < f.h

(* ---- volumes ---------------------------------------------------------------*)
RECURSIVE ProdWidth(_, _, _, _)
ProdWidth(fr, k, lb, ub) == IF k = 0 THEN 1 ELSE (ub[fr[k]] - lb[fr[k]]) * ProdWidth(fr, k - 1, lb, ub)
(* d-volume of the zonotope (n >= d): sum over d-subsets |det| * prod(widths)  *)
RECURSIVE ZonoVolOver(_, _, _, _)
ZonoVolOver(S, M, lb, ub) ==
  IF S = {} THEN 0
  ELSE LET fr == CHOOSE x \in S : TRUE
       IN Abs(Det(SubCols(M, fr))) * ProdWidth(fr, Len(M), lb, ub) + ZonoVolOver(S \ {fr}, M, lb, ub)
ZonoVolume(M, lb, ub) == ZonoVolOver(KSubsets(Len(M[1]), Len(M)), M, lb, ub)
=============================================================================
