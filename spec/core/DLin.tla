------------------------------- MODULE DLin -------------------------------
(* Exact integer linear algebra on sequences (vectors) and sequences of     *)
(* sequences (row-major matrices).  Everything here is pure operators; the  *)
(* api/ modules give them meaning.  All arithmetic is TLC 32-bit integer    *)
(* arithmetic: an overflow is a TLC error (machinery failure), never a wrap.*)
EXTENDS Integers, Sequences, FiniteSets, TLC

Abs(x) == IF x < 0 THEN -x ELSE x
Sgn(x) == IF x < 0 THEN -1 ELSE IF x = 0 THEN 0 ELSE 1
Min2(a, b) == IF a <= b THEN a ELSE b
Max2(a, b) == IF a >= b THEN a ELSE b

RECURSIVE SumTo(_, _)
SumTo(f, n) == IF n = 0 THEN 0 ELSE f[n] + SumTo(f, n - 1)
Sum(s) == SumTo(s, Len(s))

RECURSIVE MaxTo(_, _)
MaxTo(f, n) == IF n = 1 THEN f[1] ELSE Max2(f[n], MaxTo(f, n - 1))
RECURSIVE MinTo(_, _)
MinTo(f, n) == IF n = 1 THEN f[1] ELSE Min2(f[n], MinTo(f, n - 1))
MaxSeq(s) == MaxTo(s, Len(s))
MinSeq(s) == MinTo(s, Len(s))
SetMax(S) == CHOOSE x \in S : \A y \in S : y <= x
SetMin(S) == CHOOSE x \in S : \A y \in S : x <= y

RECURSIVE GcdP(_, _)
GcdP(a, b) == IF b = 0 THEN a ELSE GcdP(b, a % b)      \* a, b >= 0
Gcd(a, b) == GcdP(Abs(a), Abs(b))

RECURSIVE SortedSeq(_)
SortedSeq(S) == IF S = {} THEN <<>>
                ELSE LET m == SetMin(S) IN <<m>> \o SortedSeq(S \ {m})

(* a set of equal-length integer vectors as a sequence (lexicographic order)   *)
VLess(u, v) == \E k \in 1..Len(u) : (\A m \in 1..(k - 1) : u[m] = v[m]) /\ u[k] < v[k]
RECURSIVE SortedVecs(_)
SortedVecs(S) == IF S = {} THEN <<>>
                 ELSE LET m == CHOOSE x \in S : \A y \in S : x = y \/ VLess(x, y)
                      IN <<m>> \o SortedVecs(S \ {m})

Vec(n, x) == [i \in 1..n |-> x]
VAdd(u, v) == [i \in 1..Len(u) |-> u[i] + v[i]]
VSub(u, v) == [i \in 1..Len(u) |-> u[i] - v[i]]
VScale(k, u) == [i \in 1..Len(u) |-> k * u[i]]
VMul(u, v) == [i \in 1..Len(u) |-> u[i] * v[i]]
Dot(u, v) == SumTo([i \in 1..Len(u) |-> u[i] * v[i]], Len(u))

NRows(M) == Len(M)
NCols(M) == Len(M[1])
MatVec(M, v) == [i \in 1..Len(M) |-> Dot(M[i], v)]
Transpose(M) == [j \in 1..Len(M[1]) |-> [i \in 1..Len(M) |-> M[i][j]]]
MatMul(M, N) == LET NT == Transpose(N)
                IN [i \in 1..Len(M) |-> [j \in 1..Len(NT) |-> Dot(M[i], NT[j])]]
MScale(k, M) == [i \in 1..Len(M) |-> VScale(k, M[i])]
Col(M, j) == [i \in 1..Len(M) |-> M[i][j]]
SubCols(M, idx) == [i \in 1..Len(M) |-> [k \in 1..Len(idx) |-> M[i][idx[k]]]]
SubRows(M, idx) == [k \in 1..Len(idx) |-> M[idx[k]]]
SubVec(v, idx) == [k \in 1..Len(idx) |-> v[idx[k]]]
RowScale(w, M) == [i \in 1..Len(M) |-> VScale(w[i], M[i])]   \* diag(w) M
Identity(n) == [i \in 1..n |-> [j \in 1..n |-> IF i = j THEN 1 ELSE 0]]

Minor(M, r, c) ==
  LET n == Len(M)
  IN [i \in 1..(n - 1) |-> [j \in 1..(n - 1) |->
        M[IF i < r THEN i ELSE i + 1][IF j < c THEN j ELSE j + 1]]]

RECURSIVE Det(_)
Det(M) ==
  LET n == Len(M)
  IN IF n = 0 THEN 1
     ELSE IF n = 1 THEN M[1][1]
     ELSE IF n = 2 THEN M[1][1] * M[2][2] - M[1][2] * M[2][1]
     ELSE SumTo([j \in 1..n |->
                  IF M[1][j] = 0 THEN 0
                  ELSE (IF j % 2 = 1 THEN 1 ELSE -1) * M[1][j] * Det(Minor(M, 1, j))], n)

ReplaceCol(M, c, v) == [i \in 1..Len(M) |-> [j \in 1..Len(M[1]) |-> IF j = c THEN v[i] ELSE M[i][j]]]

(* Cramer's rule: the solution of M x = v is nums[j] / det.                  *)
Cramer(M, v) ==
  LET d == Det(M)
  IN [det |-> d,
      nums |-> IF d = 0 THEN Vec(Len(M), 0)
               ELSE [j \in 1..Len(M) |-> Det(ReplaceCol(M, j, v))]]

(* Generalised cross product of d-1 vectors of length d (rows of Vs):        *)
(* a vector orthogonal to all of them; zero iff they are dependent.          *)
Cross(Vs, d) ==
  [i \in 1..d |->
     (IF i % 2 = 1 THEN 1 ELSE -1) *
     Det([r \in 1..(d - 1) |-> [c \in 1..(d - 1) |-> Vs[r][IF c < i THEN c ELSE c + 1]]])]

(* k-subsets of 1..n as sorted index sequences.                              *)
KSubsets(n, k) == {SortedSeq(S) : S \in {T \in SUBSET (1..n) : Cardinality(T) = k}}
Complement(n, idx) == SortedSeq((1..n) \ {idx[i] : i \in 1..Len(idx)})

(* rank of a matrix with at most 4 rows/cols via largest non-vanishing minor *)
Rank(M) ==
  LET r == Len(M)
      c == Len(M[1])
      m == Min2(r, c)
      Has(k) == \E ri \in KSubsets(r, k) : \E ci \in KSubsets(c, k) :
                   Det(SubCols(SubRows(M, ri), ci)) # 0
  IN IF m >= 4 /\ Has(4) THEN 4
     ELSE IF m >= 3 /\ Has(3) THEN 3
     ELSE IF m >= 2 /\ Has(2) THEN 2
     ELSE IF Has(1) THEN 1 ELSE 0

(* block-diagonal stacking of k copies of M and k-fold concatenation of v    *)
BlockDiag(M, k) ==
  LET r == Len(M)
      c == Len(M[1])
  IN [i \in 1..(r * k) |-> [j \in 1..(c * k) |->
        IF (i - 1) \div r = (j - 1) \div c THEN M[((i - 1) % r) + 1][((j - 1) % c) + 1] ELSE 0]]
ConcatK(v, k) == [i \in 1..(Len(v) * k) |-> v[((i - 1) % Len(v)) + 1]]

(* integer square root (floor) *)
RECURSIVE ISqrtFrom(_, _)
ISqrtFrom(n, r) == IF (r + 1) * (r + 1) > n THEN r ELSE ISqrtFrom(n, r + 1)
ISqrt(n) == ISqrtFrom(n, 0)

(* all functions 1..n -> S as sequences *)
SeqsOf(n, S) == [1..n -> S]
=============================================================================
