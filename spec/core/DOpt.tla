------------------------------- MODULE DOpt -------------------------------
(* Exact convex optimisation over boxes and polytopes by enumeration of      *)
(* active sets / vertices, with KKT certificates.                            *)
EXTENDS DGeom

(* ---- bounded weighted least squares -------------------------------------- *)
(*   minimise  sum_i w2[i] * ( (M x)[i] - t[i] )^2   s.t.  lb <= x <= ub        *)
(* t, lb, ub share one scale.  ub[j] = INF means unbounded above.              *)
(* Result: x = x/den (den > 0), q = M x (same den), g = den * gradient / 2.    *)
LsqCand(M, w2, t, lb, ub, asg) ==
  LET d == Len(M)
      n == Len(M[1])
      free == SortedSeq({j \in 1..n : asg[j] = 2})
      xfix == [j \in 1..n |-> IF asg[j] = 0 THEN lb[j] ELSE IF asg[j] = 1 THEN ub[j] ELSE 0]
      rhs0 == VSub(t, MatVec(M, xfix))
      k == Len(free)
      MF == SubCols(M, free)
      G == IF k = 0 THEN <<>> ELSE MatMul(Transpose(MF), RowScale(w2, MF))
      gv == IF k = 0 THEN <<>> ELSE MatVec(Transpose(MF), VMul(w2, rhs0))
      dt == IF k > d THEN 0 ELSE Det(G)   \* more free sources than receptors: singular, never a vertex of the minimiser set
  IN IF k > d \/ dt = 0 THEN [ok |-> FALSE, den |-> 0, x |-> xfix, q |-> xfix, g |-> xfix, asg |-> asg]
     ELSE
       LET nums == [c \in 1..k |-> Det(ReplaceCol(G, c, gv))]
           xnum == [j \in 1..n |-> IF asg[j] = 2 THEN nums[Pos(free, j)] ELSE xfix[j] * dt]
           inb == \A j \in 1..n : asg[j] = 2 => (lb[j] * dt <= xnum[j] /\ (ub[j] = INF \/ xnum[j] <= ub[j] * dt))
           q == MatVec(M, xnum)
           res == VSub(q, VScale(dt, t))
           g == MatVec(Transpose(M), VMul(w2, res))
           kkt == \A j \in 1..n : (asg[j] = 0 => g[j] >= 0) /\ (asg[j] = 1 => g[j] <= 0) /\ (asg[j] = 2 => g[j] = 0)
       IN [ok |-> inb /\ kkt, den |-> dt, x |-> xnum, q |-> q, g |-> g, asg |-> asg]

ActiveSets(n, lb, ub) ==
  {a \in [1..n -> {0, 1, 2}] : \A j \in 1..n : (a[j] = 1 => ub[j] # INF) /\ (a[j] = 0 /\ ub[j] # INF => lb[j] <= ub[j])}

BoxLsq(M, w2, t, lb, ub) ==
  LET n == Len(M[1])
      a == CHOOSE a \in ActiveSets(n, lb, ub) : LsqCand(M, w2, t, lb, ub, a).ok
  IN LsqCand(M, w2, t, lb, ub, a)

BoxLsqExists(M, w2, t, lb, ub) ==
  \E a \in ActiveSets(Len(M[1]), lb, ub) : LsqCand(M, w2, t, lb, ub, a).ok

(* objective numerator: den^2 * Obj(x)                                         *)
LsqObjNum(w2, t, c) == LET res == VSub(c.q, VScale(c.den, t)) IN Dot(w2, VMul(res, res))
LsqObjAt(M, w2, t, y) == LET res == VSub(MatVec(M, y), t) IN Dot(w2, VMul(res, res))

(* Definition of optimality, restricted to the lattice: variational inequality *)
(* at every corner of the (truncated) box -- equivalent to optimality for a     *)
(* convex differentiable objective over a box.                                  *)
LsqVI(c, lb, ub, span) ==
  LET n == Len(lb)
      ubt == [j \in 1..n |-> IF ub[j] = INF THEN lb[j] + span ELSE ub[j]]
  IN \A y \in CornerSet(lb, ubt) : Dot(c.g, VSub(VScale(c.den, y), c.x)) >= 0

(* literal: no lattice point of the box has a smaller objective                *)
LsqNoBetterOn(M, w2, t, c, pts) ==
  LET on == LsqObjNum(w2, t, c)
  IN \A y \in pts : on <= c.den * c.den * LsqObjAt(M, w2, t, y)

(* uniqueness of the minimiser: the polytope {x in box : M x = q*} is a point  *)
LsqUnique(M, c, lb, ub) ==
  LET n == Len(M[1])
      d == Len(M)
  IN IF \E j \in 1..n : ub[j] = INF
     THEN (n <= d /\ Rank(M) = n)
     ELSE IF n <= d /\ Rank(M) = n THEN TRUE
     ELSE IF Rank(M) < d THEN FALSE
     ELSE Cardinality(SolVerts(M, c.q, VScale(c.den, lb), VScale(c.den, ub))) = 1

(* ---- convex QP with equalities over a box ----------------------------------- *)
(*   minimise  1/2 x'Qx + c'x   s.t.  M x = r,  lb <= x <= ub                      *)
(* Q symmetric positive semidefinite (integers), all data on one scale.            *)
(* Active-set enumeration: asg[j] = 0 (at lb), 1 (at ub), 2 (free); the free part  *)
(* and the equality multipliers solve the KKT system by Cramer's rule.             *)
(* Result: x = x/den (den > 0), lam = lam/den, mu = bound multipliers * den.       *)
QPCand(Q, c, M, r, lb, ub, asg) ==
  LET d == Len(M)
      n == Len(M[1])
      free == SortedSeq({j \in 1..n : asg[j] = 2})
      k == Len(free)
      xA == [j \in 1..n |-> IF asg[j] = 0 THEN lb[j] ELSE IF asg[j] = 1 THEN ub[j] ELSE 0]
      QxA == MatVec(Q, xA)
      MxA == MatVec(M, xA)
      KK == [i \in 1..(k + d) |-> [j \in 1..(k + d) |->
               IF i <= k /\ j <= k THEN Q[free[i]][free[j]]
               ELSE IF i <= k THEN M[j - k][free[i]]
               ELSE IF j <= k THEN M[i - k][free[j]]
               ELSE 0]]
      rhs == [i \in 1..(k + d) |-> IF i <= k THEN -c[free[i]] - QxA[free[i]] ELSE r[i - k] - MxA[i - k]]
      dt == Det(KK)
  IN IF dt = 0 THEN [ok |-> FALSE, den |-> 0, x |-> xA, lam |-> Vec(d, 0), asg |-> asg]
     ELSE
       LET sg == Sgn(dt)
           a == Abs(dt)
           sol == [i \in 1..(k + d) |-> sg * Det(ReplaceCol(KK, i, rhs))]
           x == [j \in 1..n |-> IF asg[j] = 2 THEN sol[Pos(free, j)] ELSE xA[j] * a]
           lam == [i \in 1..d |-> sol[k + i]]
           inb == \A j \in 1..n : asg[j] = 2 => (lb[j] * a <= x[j] /\ x[j] <= ub[j] * a)
           grad == VAdd(VAdd(MatVec(Q, x), VScale(a, c)), MatVec(Transpose(M), lam))   \* a * (Qx + c + M'lam)
           kkt == \A j \in 1..n : (asg[j] = 0 => grad[j] >= 0) /\ (asg[j] = 1 => grad[j] <= 0)
       IN [ok |-> inb /\ kkt, den |-> a, x |-> x, lam |-> lam, asg |-> asg]

QPEq(Q, c, M, r, lb, ub) ==
  LET n == Len(M[1])
      a == CHOOSE a \in [1..n -> {0, 1, 2}] : QPCand(Q, c, M, r, lb, ub, a).ok
  IN QPCand(Q, c, M, r, lb, ub, a)
QPEqExists(Q, c, M, r, lb, ub) == \E a \in [1..Len(M[1]) -> {0, 1, 2}] : QPCand(Q, c, M, r, lb, ub, a).ok

(* twice the objective at x/den, times den^2:  x'Qx + 2 den c'x                      *)
QPObj2(Q, c, x, den) == Dot(x, MatVec(Q, x)) + 2 * den * Dot(c, x)

(* definition on the lattice: no vertex of the feasible polytope is better           *)
QPNoVertexBetter(Q, c, cand, V) ==
  cand.den <= 300 =>
    \A v \in V : v.den <= 300 =>
       RLeq(R(QPObj2(Q, c, cand.x, cand.den), cand.den * cand.den), R(QPObj2(Q, c, v.num, v.den), v.den * v.den))

(* LP over the vertex set V of a polytope: min / max of the coordinate sum            *)
SumOf(v) == <<Sum(v.num), v.den>>
MinSumVert(V) == CHOOSE v \in V : \A u \in V : RLeq(SumOf(v), SumOf(u))
MaxSumVert(V) == CHOOSE v \in V : \A u \in V : RLeq(SumOf(u), SumOf(v))
(* ... and of the sum over a subset I of the coordinates (a set of indices)              *)
RECURSIVE SumIdx(_, _)
SumIdx(x, I) == IF I = {} THEN 0 ELSE LET j == CHOOSE k \in I : TRUE IN x[j] + SumIdx(x, I \ {j})
SubSumOf(v, I) == <<SumIdx(v.num, I), v.den>>
MinSubSum(V, I) == LET v == CHOOSE v \in V : \A u \in V : RLeq(SubSumOf(v, I), SubSumOf(u, I)) IN SubSumOf(v, I)
MaxSubSum(V, I) == LET v == CHOOSE v \in V : \A u \in V : RLeq(SubSumOf(u, I), SubSumOf(v, I)) IN SubSumOf(v, I)
=============================================================================
