------------------------------- MODULE DNum -------------------------------
(* Exact rationals as <<num, den>> with den > 0, gcd-normalised; +infinity   *)
(* is the string "inf"; "argument not passed" is the string "none".          *)
EXTENDS DLin

RNorm(r) == LET n == r[1]
                d == r[2]
                s == IF d < 0 THEN -1 ELSE 1
                g == Gcd(Abs(n), Abs(d))
            IN IF g = 0 THEN <<0, 1>> ELSE <<(s * n) \div g, (s * d) \div g>>
R(n, d) == RNorm(<<n, d>>)
RInt(n) == <<n, 1>>
RAdd(a, b) == RNorm(<<a[1] * b[2] + b[1] * a[2], a[2] * b[2]>>)
RSub(a, b) == RNorm(<<a[1] * b[2] - b[1] * a[2], a[2] * b[2]>>)
RMul(a, b) == RNorm(<<a[1] * b[1], a[2] * b[2]>>)
RDiv(a, b) == RNorm(<<a[1] * b[2], a[2] * b[1]>>)
RNeg(a) == <<-a[1], a[2]>>
RLeq(a, b) == a[1] * b[2] <= b[1] * a[2]
RLt(a, b) == a[1] * b[2] < b[1] * a[2]
REq(a, b) == a[1] * b[2] = b[1] * a[2]
RMin(a, b) == IF RLeq(a, b) THEN a ELSE b
RMax(a, b) == IF RLeq(a, b) THEN b ELSE a
RAbs(a) == <<Abs(a[1]), a[2]>>
RSgn(a) == Sgn(a[1])

RECURSIVE RSumTo(_, _)
RSumTo(f, n) == IF n = 0 THEN <<0, 1>> ELSE RAdd(f[n], RSumTo(f, n - 1))
RDot(u, v) == RSumTo([i \in 1..Len(u) |-> RMul(u[i], v[i])], Len(u))
RVec(u) == [i \in 1..Len(u) |-> RInt(u[i])]

IsInf(v) == v = "inf"
IsNone(v) == v = "none"
=============================================================================
