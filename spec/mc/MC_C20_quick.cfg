SPECIFICATION Spec
CONSTANTS Tier = "quick"
INVARIANT Laws
CHECK_DEADLOCK FALSE
