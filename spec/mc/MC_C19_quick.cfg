SPECIFICATION Spec
CONSTANTS Tier = "quick"
INVARIANT GridExact
INVARIANT AffineExact
INVARIANT Idempotent
CHECK_DEADLOCK FALSE
