SPECIFICATION MCSpec
CONSTANTS
  Filters <- FiltersDef
  SrcPool <- SrcPoolDef
  BoundPool <- BoundPoolDef
  KPool <- KPoolDef
  BlPool <- BlPoolDef
  BgPool <- BgPoolDef
  XaPool <- XaPoolDef
  TgtPool <- TgtPoolDef
  WPool <- WPoolDef
  UncPool <- UncPoolDef
  MaxDK = 60
  Mode = "rereg"
  Depth = 4
INVARIANT AnswersDependOnStateOnly
PROPERTY QueriesArePure
PROPERTY FrameOK
PROPERTY AdaptedBackgroundIsOne
PROPERTY AdaptedSystemIsOne
INVARIANT EpsilonIsDerived
CHECK_DEADLOCK FALSE
