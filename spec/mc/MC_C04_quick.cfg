SPECIFICATION Spec
CONSTANTS Tier = "quick"
INVARIANT OracleIsOptimal
INVARIANT ZeroErrorIffInGamut
INVARIANT BothKinds
CHECK_DEADLOCK FALSE
