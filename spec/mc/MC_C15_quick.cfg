SPECIFICATION Spec
CONSTANTS Tier = "quick"
INVARIANT UnitChangeTheorems
CHECK_DEADLOCK FALSE
