SPECIFICATION Spec
CONSTANTS Tier = "thorough"
INVARIANT UnitChangeTheorems
CHECK_DEADLOCK FALSE
