SPECIFICATION Spec
CONSTANTS Tier = "thorough"
INVARIANT OracleAgreesWithDefinition
INVARIANT AllClassesPresent
INVARIANT CornersIn
INVARIANT FarOut
INVARIANT InteriorIn
CHECK_DEADLOCK FALSE
