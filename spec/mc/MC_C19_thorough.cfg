SPECIFICATION Spec
CONSTANTS Tier = "thorough"
INVARIANT GridExact
INVARIANT AffineExact
INVARIANT Idempotent
CHECK_DEADLOCK FALSE
