------------------------------- MODULE MC_C06 -------------------------------
(* C06: underdetermined systems; per target the exact per-source extent of     *)
(* the solution polytope (from its vertex set), or the best fit when outside.  *)
EXTENDS LsqLinear

CONSTANTS Tier
VARIABLES pc, key, out
vars == <<pc, key, out>>

G == IF Tier = "quick" THEN 4 ELSE 7
Span == 8

Families == {"mat23", "bounds", "kb", "unb"} \cup (IF Tier = "quick" THEN {} ELSE {"mat24", "s34", "kb3", "s25"})

A25 == <<<<3, 2, 1, 0, 1>>, <<0, 1, 2, 3, 1>>>>
A12b == <<<<1, 2>>>>
SystemsOf(f) ==
  CASE f = "mat23" -> SysMatrix(2, 3, IF Tier = "quick" THEN 0..2 ELSE 0..3) \cup SysBoundsOf(A12b) \cup SysBoundsOf(A13)
    [] f = "mat24" -> SysMatrix(2, 4, 0..1) \cup SysBoundsOf(A24)
    [] f = "s25" -> SysBoundsOf(A25)
    [] f = "s34" -> SysBoundsOf(A34)
    [] f = "bounds" -> UNION {SysBoundsOf(A) : A \in {A23, A23b}} \cup (IF Tier = "quick" THEN {} ELSE SysBoundsOf(A24))
    [] f = "kb" -> SysKBOf(A23, Vec(3, 0), Vec(3, 4), KVariants(2)) \cup SysKBOf(A23b, Vec(3, 2), Vec(3, 8), KVariantsPos(2))
    (* sources without an upper bound (growth beyond the property, which quantifies over finite ub): capture matrices  *)
    (* with strictly positive column sums, for which the solution polytope is bounded and its vertices give the extents *)
    [] f = "unb" -> UNION {{Plain(A, 4, lbv, Vec(3, INF)) : lbv \in {Vec(3, 0), Vec(3, 1), <<2, 0, 1>>}} : A \in {A23, A23b}}
    [] f = "kb3" -> SysKBOf(A34, Vec(4, 0), Vec(4, 4), KVariants(3))

TargetRecord(s, b) ==
  LET r == RangeOf(s, b)
      c == ClassOf(s, b)
  IN [b |-> b, cls |-> c, empty |-> r.empty, lo |-> r.lo, hi |-> r.hi, nverts |-> r.nverts,
      fit |-> IF r.empty THEN LET f == FitGaussian(s, Vec(Len(s.A), 1), b) IN [q |-> f.q, den |-> f.den] ELSE [q |-> <<>>, den |-> 1],
      (* definitional cross-checks *)
      consistent |-> /\ (r.empty <=> c = "exterior")
                     /\ (~r.empty => \A j \in 1..Len(r.lo) :
                            /\ RLeq(r.lo[j], r.hi[j])
                            /\ RLeq(<<s.lb[j], 1>>, r.lo[j]) /\ RLeq(r.hi[j], <<s.ub[j], 1>>))]

Init == pc = "init" /\ key = "" /\ out = <<>>
Level1 == pc = "init" /\ \E f \in Families : key' = f /\ pc' = "fam" /\ out' = out
Level2 == /\ pc = "fam"
          /\ \E s \in SystemsOf(key) : out' = [fam |-> key, sys |-> s]
          /\ pc' = "sys" /\ key' = key
Level3 == /\ pc = "sys"
          /\ out' = [fam |-> out.fam, sys |-> out.sys,
                     targets |-> {TargetRecord(out.sys, b) : b \in Targets(out.sys, G, Span)}]
          /\ pc' = "done" /\ key' = key
Next == Level1 \/ Level2 \/ Level3
Spec == Init /\ [][Next]_vars

RangeConsistent == pc = "done" => \A t \in out.targets : t.consistent
(* the least-squares minimiser of an in-gamut target lies inside the range     *)
FitInsideRange == pc = "done" => \A t \in out.targets :
   (~t.empty) => LET f == FitGaussian(out.sys, Vec(Len(out.sys.A), 1), t.b)
                 IN \A j \in 1..Len(t.lo) : RLeq(t.lo[j], <<f.x[j], f.den>>) /\ RLeq(<<f.x[j], f.den>>, t.hi[j])
NonVacuous == pc = "done" => (\E t \in out.targets : t.nverts >= 2) /\ (\E t \in out.targets : t.empty)
=============================================================================
