------------------------------- MODULE MC_C07 -------------------------------
EXTENDS Models

CONSTANTS Tier
VARIABLES pc, key, out
vars == <<pc, key, out>>

G == IF Tier = "quick" THEN 3 ELSE 4
Span == 8
Families == {"s22", "s23", "kb", "o21", "o32", "pin"} \cup (IF Tier = "quick" THEN {} ELSE {"s33", "mat22", "o32kb"})
KPosSV(d) == {k \in KVariants(d) : k[1] \in {"none", "scalar", "vector"}}
SystemsOf(f) ==
  CASE f = "s22" -> SysBoundsOf(A22)
    [] f = "s23" -> {Plain(A23, 4, Vec(3, 0), Vec(3, 4)), Plain(A23, 4, Vec(3, 1), <<5, 6, 7>>)}
    [] f = "s33" -> {Plain(A33, 4, Vec(3, 0), Vec(3, 4))}
    [] f = "mat22" -> SysMatrix(2, 2, 0..2)
    [] f = "kb" -> SysKBOf(A22, Vec(2, 0), Vec(2, 4), KPosSV(2))
    (* a source pinned at a non-zero intensity (lb = ub), e.g. a constant background light *)
    [] f = "pin" -> {Plain(A23, 4, <<2, 0, 0>>, <<2, 4, 4>>), Plain(A22, 4, <<0, 3>>, <<4, 3>>),
                     Sys(A23, 4, <<0, 1, 0>>, <<4, 1, 4>>, "vector", Diag(<<1, 2>>), 1, "vector", <<1, 2>>)}
    [] f = "o21" -> SysBoundsOf(A21) \cup SysKBOf(A21, Vec(1, 1), Vec(1, 7), KPosSV(2))
    [] f = "o32" -> SysBoundsOf(A32)
    [] f = "o32kb" -> SysKBOf(A32, Vec(2, 1), <<6, 5>>, KPosSV(3))

(* targets with all coordinates >= one lattice unit above zero (Poisson needs b > 0) *)
PosTargets(s) == {b \in Targets(s, G, Span) : \A i \in 1..Len(b) : b[i] >= 1}

WeightsOf(d) == {Vec(d, 1), [i \in 1..d |-> IF i = 1 THEN 2 ELSE 1]}
Init == pc = "init" /\ key = "" /\ out = <<>>
Level1 == pc = "init" /\ \E f \in Families : key' = f /\ pc' = "fam" /\ out' = out
Level2 == /\ pc = "fam"
          /\ \E s \in SystemsOf(key) : out' = [fam |-> key, sys |-> s]
          /\ pc' = "sys" /\ key' = key
Level3 == /\ pc = "sys"
          /\ out' = [fam |-> out.fam, sys |-> out.sys, recs |-> {ModelRecord(out.sys, b) : b \in PosTargets(out.sys)},
                      back |-> BackRecords(out.sys, WeightsOf(Len(out.sys.A)))]
          /\ pc' = "done" /\ key' = key
Next == Level1 \/ Level2 \/ Level3
Spec == Init /\ [][Next]_vars
CertificatesConsistent == pc = "done" => \A r \in out.recs : r.ok
BackCertified == pc = "done" => \A r \in out.back : BackOK(out.sys, r)
NonVacuous == (pc = "done" /\ out.fam # "pin") => (\E r \in out.recs : r.cls = "interior") /\ (\E r \in out.recs : r.ncert > 0)
=============================================================================
