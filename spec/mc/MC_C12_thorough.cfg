SPECIFICATION Spec
CONSTANTS Tier = "thorough"
INVARIANT ScalingLaws
CHECK_DEADLOCK FALSE
