SPECIFICATION Spec
CONSTANTS Tier = "thorough"
INVARIANT OptimaAreOptimal
INVARIANT StripsAreHomogeneous
CHECK_DEADLOCK FALSE
