SPECIFICATION Spec
CONSTANTS Tier = "thorough"
INVARIANT OptimaAreOptimal
CHECK_DEADLOCK FALSE
