------------------------------- MODULE MC_C17 -------------------------------
EXTENDS Project

CONSTANTS Tier
VARIABLES pc, key, out
vars == <<pc, key, out>>

(* clouds: origin-centred lattice clouds in 2-D / 3-D (for alpha the origin must be strictly inside) *)
Pool2 == {<<a, b>> : a \in -2..2, b \in -2..2}
Base2 == {{<<2, 1>>, <<-1, 2>>, <<-2, -1>>, <<1, -2>>}, {<<2, 0>>, <<0, 2>>, <<-2, -2>>}, {<<2, 2>>, <<-2, 2>>, <<-2, -2>>, <<2, -2>>}}
Extra2 == IF Tier = "quick" THEN {<<0, 0>>, <<1, 1>>, <<-2, 1>>, <<2, -1>>, <<0, -2>>} ELSE Pool2
Clouds2 == {B \cup E : B \in Base2, E \in {T \in SUBSET Extra2 : Cardinality(T) <= (IF Tier = "quick" THEN 2 ELSE 2)}}
Base3 == {{<<2, 0, 0>>, <<0, 2, 0>>, <<0, 0, 2>>, <<-1, -1, -1>>}, {<<1, 1, 1>>, <<-1, -1, 1>>, <<-1, 1, -1>>, <<1, -1, -1>>},
          {<<2, 2, 1>>, <<-2, 2, 1>>, <<-2, -2, 1>>, <<2, -2, 1>>, <<0, 0, -2>>}}
Extra3 == {<<0, 0, 0>>, <<1, 0, 1>>, <<0, 0, 2>>, <<-1, 1, 0>>, <<2, 0, -1>>}
Clouds3 == {B \cup E : B \in Base3, E \in {T \in SUBSET Extra3 : Cardinality(T) <= 1}}
Queries(d) == IF d = 2 THEN {<<a, b>> : a \in -3..3, b \in -3..3} \ {<<0, 0>>}
              ELSE {<<a, b, c>> : a \in {-3, 0, 1, 2}, b \in {-2, 0, 3}, c \in {-3, 0, 1}} \ {<<0, 0, 0>>}
(* non-negative clouds for the slice *)
PosClouds == {{<<0, 0>>, <<4, 0>>, <<0, 3>>, <<2, 2>>}, {<<1, 0>>, <<3, 1>>, <<1, 4>>, <<0, 2>>, <<2, 2>>},
              {<<0, 0, 0>>, <<4, 0, 0>>, <<0, 4, 0>>, <<0, 0, 4>>, <<2, 2, 2>>}, {<<1, 0, 0>>, <<0, 2, 1>>, <<3, 1, 0>>, <<1, 1, 4>>, <<2, 3, 1>>, <<0, 0, 1>>},
              {<<0, 0, 1>>, <<3, 0, 0>>, <<0, 3, 0>>}, {<<1, 1>>, <<3, 0>>}}

Init == pc = "init" /\ key = <<>> /\ out = <<>>
Level1 == /\ pc = "init"
          /\ \/ \E P \in Clouds2 \cup Clouds3 : key' = <<"hull", P>>
             \/ \E P \in PosClouds : key' = <<"slice", P>>
          /\ pc' = "key" /\ out' = out
Level2 ==
  /\ pc = "key"
  /\ IF key[1] = "hull"
     THEN LET P == key[2]
              F == HullFacets(P)
              V == HullVerts(P)
              d == Len(CHOOSE x \in P : TRUE)
              zero == Vec(d, 0)
          IN out' = [kind |-> "hull", P |-> P, F |-> F, V |-> V, origin_inside |-> StrictInHull(F, zero),
                     queries |-> {[b |-> b, inside |-> InHull(F, b), strictly |-> StrictInHull(F, b),
                                   alpha |-> IF StrictInHull(F, zero) THEN AlphaExact(F, b) ELSE <<0, 1>>] : b \in Queries(d)}]
     ELSE LET P == key[2]
              sums == {Sum(p) : p \in P}
              cs == {c \in (SetMin(sums) + 1)..(SetMax(sums) - 1) : TRUE}
          IN out' = [kind |-> "slice", P |-> P, slices |-> {[c |-> c, I |-> SlicePts(P, c)] : c \in cs}]
  /\ pc' = "done" /\ key' = key
Next == Level1 \/ Level2
Spec == Init /\ [][Next]_vars

(* inside points are their own projection; alpha*b lies on the boundary: satisfies all facets, one with equality *)
AlphaOnBoundary == (pc = "done" /\ out.kind = "hull" /\ out.origin_inside) =>
   \A q \in out.queries : q.alpha[1] # INF =>
      /\ \A f \in out.F : Dot(f.nu, q.b) * q.alpha[1] <= f.h * q.alpha[2]
      /\ \E f \in out.F : Dot(f.nu, q.b) * q.alpha[1] = f.h * q.alpha[2]
SlicesOnPlane == (pc = "done" /\ out.kind = "slice") => \A s \in out.slices : \A p \in s.I : Sum(p.num) = s.c * p.den
VerticesAreExtreme == (pc = "done" /\ out.kind = "hull") => out.V # {} /\ \A v \in out.V : InHull(out.F, v)
=============================================================================
