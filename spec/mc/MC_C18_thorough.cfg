SPECIFICATION Spec
CONSTANTS Tier = "thorough"
          Depth = 3
PROPERTY AreaLaws
INVARIANT ZonoAgrees
CHECK_DEADLOCK FALSE
