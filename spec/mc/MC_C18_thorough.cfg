SPECIFICATION Spec
CONSTANTS Tier = "thorough"
          Depth = 3
PROPERTY AreaLaws
PROPERTY CorrLaws
INVARIANT ZonoAgrees
CHECK_DEADLOCK FALSE
