SPECIFICATION Spec
CONSTANTS Tier = "quick"
INVARIANT Stage2IsOptimal
INVARIANT BothKinds
CHECK_DEADLOCK FALSE
