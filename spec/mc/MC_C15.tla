------------------------------- MODULE MC_C15 -------------------------------
(* C15: equivariance under a change of physical units.                        *)
(*   intensities in units s times larger : A*s, lb/s, ub/s                    *)
(*   captures in units c times smaller  : A*c, targets*c, baseline*c          *)
(* In lattice form (Systems.tla) the twin of system p is                      *)
(*   [A*s*c, D*s, lb, ub (same integers), Kn, DK, bl*c*s]  and target b*c*s.  *)
(* Theorems checked by TLC on the lattice (integer s, c): same class, same    *)
(* range numerators (i.e. range / s), same minimiser numerators (x / s),      *)
(* prediction * c.  The base cases (with class, fit and range) are emitted    *)
(* for the harness, which runs float twins for s, c in powers of ten.         *)
EXTENDS LsqLinear

CONSTANTS Tier
VARIABLES pc, key, out
vars == <<pc, key, out>>

Rescale(p, s, c) ==
  Sys(MScale(s * c, p.A), p.D * s, p.lb, p.ub, p.kk, p.Kn, p.DK, p.bk, VScale(c * s, p.bl))
RescaleTarget(b, s, c) == VScale(c * s, b)

G == 3
Span == 8
Pairs == {<<2, 1>>, <<1, 2>>, <<3, 1>>, <<1, 3>>, <<2, 2>>}

Families == {"sq", "under", "kb"} \cup (IF Tier = "quick" THEN {} ELSE {"mat22", "three"})
SystemsOf(f) ==
  CASE f = "sq" -> SysBoundsOf(A22)
    [] f = "under" -> SysBoundsOf(A23) \cup {Plain(A23b, 4, Vec(3, 0), Vec(3, 4))}
    [] f = "kb" -> SysKBOf(A22, Vec(2, 0), Vec(2, 4), KVariants(2)) \cup SysKBOf(A23, Vec(3, 0), Vec(3, 4), KVariantsPos(2))
    [] f = "mat22" -> SysMatrix(2, 2, 0..2)
    [] f = "three" -> SysBoundsOf(A33) \cup SysBoundsOf(A34)

W1(s) == Vec(Len(s.A), 1)
Under(s) == Len(s.A[1]) > Len(s.A)

TargetRecord(s, b) ==
  LET c == FitGaussian(s, W1(s), b)
      cls == ClassOf(s, b)
      rg == IF Under(s) /\ cls = "interior" THEN RangeOf(s, b) ELSE [empty |-> TRUE, lo |-> <<>>, hi |-> <<>>, nverts |-> 0]
  IN [b |-> b, cls |-> cls, x |-> c.x, q |-> c.q, den |-> c.den,
      unique |-> LsqUnique(NormM(s), c, s.lb, s.ub), lo |-> rg.lo, hi |-> rg.hi]

(* the theorems, for one target and one integer pair *)
Equivariant(s, b, pr) ==
  LET t == Rescale(s, pr[1], pr[2])
      bt == RescaleTarget(b, pr[1], pr[2])
      c0 == FitGaussian(s, W1(s), b)
      c1 == FitGaussian(t, W1(s), bt)
  IN /\ ClassOf(t, bt) = ClassOf(s, b)
     /\ (Under(s) /\ ClassOf(s, b) = "interior" =>
           LET r0 == RangeOf(s, b)
               r1 == RangeOf(t, bt)
           IN \A j \in 1..Len(r0.lo) : REq(r0.lo[j], r1.lo[j]) /\ REq(r0.hi[j], r1.hi[j]))
     (* prediction scales by c*s in lattice units (c in real units): q1/den1 = c*s*q0/den0 *)
     /\ \A i \in 1..Len(c0.q) : R(c1.q[i], c1.den) = RMul(RInt(pr[1] * pr[2]), R(c0.q[i], c0.den))

Init == pc = "init" /\ key = "" /\ out = <<>>
Level1 == pc = "init" /\ \E f \in Families : key' = f /\ pc' = "fam" /\ out' = out
Level2 == /\ pc = "fam"
          /\ \E s \in SystemsOf(key) : out' = [fam |-> key, sys |-> s]
          /\ pc' = "sys" /\ key' = key
Level3 == /\ pc = "sys"
          /\ LET T == Targets(out.sys, G, Span)
             IN out' = [fam |-> out.fam, sys |-> out.sys,
                        targets |-> {TargetRecord(out.sys, b) : b \in T},
                        equivariant |-> IF Len(out.sys.A) = 2 /\ out.sys.DK = 1
                                        THEN \A b \in T : \A pr \in Pairs : Equivariant(out.sys, b, pr)
                                        ELSE TRUE,
                        theorem_checked |-> Len(out.sys.A) = 2 /\ out.sys.DK = 1]
          /\ pc' = "done" /\ key' = key
Next == Level1 \/ Level2 \/ Level3
Spec == Init /\ [][Next]_vars
UnitChangeTheorems == pc = "done" => out.equivariant
=============================================================================
