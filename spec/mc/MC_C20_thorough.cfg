SPECIFICATION Spec
CONSTANTS Tier = "thorough"
INVARIANT Laws
CHECK_DEADLOCK FALSE
