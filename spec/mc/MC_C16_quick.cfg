SPECIFICATION Spec
CONSTANTS Tier = "quick"
INVARIANT SphereLaws
INVARIANT SimplexLaws
CHECK_DEADLOCK FALSE
