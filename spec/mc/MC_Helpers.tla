----------------------------- MODULE MC_Helpers -----------------------------
EXTENDS Helpers
VARIABLES pc, out
vars == <<pc, out>>
Init == pc = "init" /\ out = <<>>
Next ==
  /\ pc = "init"
  /\ \/ \E start \in {0, 3}, len \in 1..9, sn \in {1, 2, 3, 5}, sd \in {1, 2, 4} :
          out' = [kind |-> "arange", start |-> start, stop |-> start + len, sn |-> sn, sd |-> sd,
                  count |-> ArangeCount(start, start + len, sn, sd), changed |-> ArangeStepChanged(start, start + len, sn, sd)]
     \/ \E n \in {-7, -5, -2, 0, 1, 3, 5, 6, 9, 10, 15}, d \in {2, 4} :
          out' = [kind |-> "round", n |-> n, d |-> d, r |-> RoundHalfEven(n, d)]
     \/ \E s \in SysBoundsOf(A22) \cup SysBoundsOf(A23) \cup SysKBOf(A23, Vec(3, 1), <<5, 4, 6>>, KVariants(2)) \cup SysUnbOf(A22) :
          out' = [kind |-> "corners", sys |-> s,
                  corners |-> Corners(s.lb, TruncUb(s, 4)),          \* code: ub := lb + 1 (i.e. + D) when unbounded
                  P |-> [k \in 1..(2 ^ Len(s.lb)) |-> RelCapture(s, Corners(s.lb, TruncUb(s, 4))[k])],
                  ratio |-> IF Len(s.lb) = 2 /\ Bounded(s) THEN RatioPoints(s.lb, s.ub) ELSE {},
                  insys |-> {[x |-> x, ans |-> InSystem(x, s.lb, s.ub)] : x \in [1..Len(s.lb) -> {0, 2, 5, 9}]}]
     \/ \E x \in {-98765, -1250, -349, -15, -7, 0, 3, 14, 15, 25, 149, 150, 151, 2500, 3499, 99949, 99951, 123456}, p \in 1..3 :
          out' = [kind |-> "signif", x |-> x, p |-> p, r |-> RoundSig(x, p), tie |-> RoundSigIsTie(x, p)]
     \/ \E v \in [1..3 -> {-3, 0, 2, 7}] :
          out' = [kind |-> "norms", v |-> v, l1 |-> L1Norm(v), l2sq |-> L2NormSq(v)]
     \/ \E n \in 2..4, d \in 1..3, incl \in BOOLEAN : out' = [kind |-> "grid", n |-> n, d |-> d, incl |-> incl, pts |-> EquallySpaced(n, d, incl)]
  /\ pc' = "done"
Spec == Init /\ [][Next]_vars
=============================================================================
