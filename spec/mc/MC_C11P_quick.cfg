SPECIFICATION Spec
CONSTANTS Tier = "quick"
CHECK_DEADLOCK FALSE
