------------------------------- MODULE MC_C16 -------------------------------
EXTENDS Coords

CONSTANTS Tier
VARIABLES pc, key, out
vars == <<pc, key, out>>

(* n-sphere point families: <<d, name>> *)
SphFam == {<<2, "full">>, <<3, "full">>, <<4, "full">>, <<5, "tern">>, <<6, "axes">>, <<9, "axes">>, <<12, "axes">>}
          \cup (IF Tier = "quick" THEN {} ELSE {<<6, "tern">>, <<7, "tern">>, <<5, "full">>})
Pts(d, name) ==
  CASE name = "full" -> [1..d -> -2..2]
    [] name = "tern" -> [1..d -> {-1, 0, 1}]
    [] name = "axes" -> {[k \in 1..d |-> IF k = i THEN s ELSE 0] : i \in 1..d, s \in {-2, 1}}
                        \cup {[k \in 1..d |-> IF k = i THEN 1 ELSE IF k = j THEN -1 ELSE 0] : i \in 1..d, j \in 1..d}
                        \cup {[k \in 1..d |-> 0], [k \in 1..d |-> IF k = 1 THEN -1 ELSE 1], [k \in 1..d |-> IF k > d - 2 THEN 0 ELSE k]}
(* barycentric point pools per n *)
BaryN == IF Tier = "quick" THEN {2, 3, 4, 7, 12} ELSE 2..12
BPool(n) == {[k \in 1..n |-> IF k = i THEN 1 ELSE 0] : i \in 1..n}
            \cup {[k \in 1..n |-> 1], [k \in 1..n |-> k], [k \in 1..n |-> IF k % 2 = 0 THEN 0 ELSE 3],
                  [k \in 1..n |-> IF k = 1 THEN 5 ELSE IF k = n THEN 1 ELSE 0]}

Init == pc = "init" /\ key = <<>> /\ out = <<>>
Level1 == /\ pc = "init"
          /\ \/ \E f \in SphFam : key' = <<"sph", f[1], f[2]>>
             \/ \E n \in BaryN : key' = <<"bary", n, "">>
          /\ pc' = "key" /\ out' = out
Level2 ==
  /\ pc = "key"
  /\ IF key[1] = "sph"
     THEN \E x0 \in -2..2 :
            LET P == {x \in Pts(key[2], key[3]) : x[1] = x0}
            IN P # {} /\ out' = [kind |-> "sph", d |-> key[2], fam |-> key[3],
                                 pts |-> {[x |-> x, s |-> Spherical(x), ok |-> Decomposes(x)] : x \in P}]
     ELSE LET n == key[2]
              P == BPool(n)
          IN out' = [kind |-> "bary", n |-> n, unit |-> UnitEdges(n),
                     pairs |-> {[p |-> p, q |-> q, d2 |-> BaryDist2(p, q), sf |-> ScaleFree(p, 3)] : p \in P, q \in P}]
  /\ pc' = "done" /\ key' = key
Next == Level1 \/ Level2
Spec == Init /\ [][Next]_vars

SphereLaws == (pc = "done" /\ out.kind = "sph") => \A r \in out.pts : r.ok
SimplexLaws == (pc = "done" /\ out.kind = "bary") => out.unit /\ \A r \in out.pairs : r.sf
=============================================================================
