SPECIFICATION Spec
CONSTANTS
  NDs = {2, 3, 4}
  ArrDoms <- ArrDomsThoroughAll
  Steps <- StepsThorough
  BatchToo = TRUE
INVARIANT PairwiseOnly
INVARIANT DxEquivalent
INVARIANT DefinitionAgrees
CHECK_DEADLOCK FALSE
