SPECIFICATION Spec
CONSTANTS Tier = "quick"
INVARIANT RangeConsistent
INVARIANT FitInsideRange
INVARIANT NonVacuous
CHECK_DEADLOCK FALSE
