------------------------------- MODULE MC_C08 -------------------------------
EXTENDS Underdet

CONSTANTS Tier
VARIABLES pc, key, out
vars == <<pc, key, out>>

G == IF Tier = "quick" THEN 3 ELSE 5
Span == 8
Families == {"s23", "s12", "kb"} \cup (IF Tier = "quick" THEN {} ELSE {"mat23", "s13", "s24"})
SystemsOf(f) ==
  CASE f = "s23" -> SysBoundsOf(A23) \cup SysBoundsOf(A23b)
    [] f = "s12" -> SysBoundsOf(A12)
    [] f = "s13" -> SysBoundsOf(A13)
    [] f = "s24" -> {Plain(A24, 4, Vec(4, 0), Vec(4, 4))}
    [] f = "mat23" -> SysMatrix(2, 3, 0..2)
    [] f = "kb" -> SysKBOf(A23, Vec(3, 0), Vec(3, 4), KVariantsPos(2))

X0(n) == [j \in 1..n |-> IF j % 2 = 1 THEN 3 ELSE 1]     \* units 1/D
Vs == {0, 1, 6, 40}                                         \* requested totals (units 1/D)

Init == pc = "init" /\ key = "" /\ out = <<>>
Level1 == pc = "init" /\ \E f \in Families : key' = f /\ pc' = "fam" /\ out' = out
Level2 == /\ pc = "fam"
          /\ \E s \in SystemsOf(key) : out' = [fam |-> key, sys |-> s]
          /\ pc' = "sys" /\ key' = key
Level3 == /\ pc = "sys"
          /\ LET s == out.sys
                 T == {b \in Targets(s, G, Span) : ClassOf(s, b) = "interior"}
             IN out' = [fam |-> out.fam, sys |-> s,
                        recs |-> {UnderRecord(s, b, X0(Len(s.A[1])), v) : b \in T, v \in Vs}]
          /\ pc' = "done" /\ key' = key
Next == Level1 \/ Level2 \/ Level3
Spec == Init /\ [][Next]_vars
OraclesAreOptimal == pc = "done" => \A r \in out.recs : r.ok
NonVacuous == pc = "done" => (out.recs # {} => \E r \in out.recs : r.nverts >= 2)
=============================================================================
