SPECIFICATION Spec
CONSTANTS Tier = "quick"
INVARIANT ScalingLaws
CHECK_DEADLOCK FALSE
