------------------------------- MODULE MC_C13 -------------------------------
EXTENDS Sampling
CONSTANTS Tier
VARIABLES pc, out
vars == <<pc, out>>

Clouds2 == { {<<0, 0>>, <<4, 0>>, <<0, 3>>},                                   \* triangle
             {<<0, 0>>, <<4, 0>>, <<5, 3>>, <<1, 4>>, <<2, 2>>, <<3, 1>>},      \* quad with interior points
             {<<0, 0>>, <<8, 1>>, <<9, 2>>, <<1, 1>>},                          \* strongly skewed
             {<<0, 0>>, <<2, 0>>, <<4, 0>>, <<4, 4>>, <<0, 4>>, <<2, 4>>},      \* collinear points on edges
             {<<0, 0>>, <<6, 0>>, <<7, 2>>, <<5, 5>>, <<1, 6>>, <<-1, 3>>} }    \* hexagon
Clouds3 == { {<<0, 0, 0>>, <<3, 0, 0>>, <<0, 3, 0>>, <<0, 0, 3>>, <<1, 1, 1>>},
             {<<0, 0, 0>>, <<2, 0, 0>>, <<0, 2, 0>>, <<2, 2, 0>>, <<0, 0, 2>>, <<2, 0, 2>>, <<0, 2, 2>>, <<2, 2, 2>>} }

Init == pc = "init" /\ out = <<>>
Next == /\ pc = "init"
        /\ \/ \E P \in Clouds2 : out' = [d |-> 2, P |-> P, F |-> HullFacets(P), regions |-> FanRegions(P), area2 |-> PolyArea2(P)]
           \/ \E P \in Clouds3 : out' = [d |-> 3, P |-> P, F |-> HullFacets(P), regions |-> {}, area2 |-> 0]
        /\ pc' = "done"
Spec == Init /\ [][Next]_vars
(* the fan regions tile the hull: their areas add up to the hull area *)
RECURSIVE SumArea(_)
SumArea(Rs) == IF Rs = {} THEN 0 ELSE LET r == CHOOSE x \in Rs : TRUE IN r.area2 + SumArea(Rs \ {r})
RegionsTile == (pc = "done" /\ out.d = 2) => SumArea(out.regions) = out.area2
=============================================================================
