------------------------------- MODULE MC_C13 -------------------------------
EXTENDS Sampling
CONSTANTS Tier
VARIABLES pc, out
vars == <<pc, out>>

Clouds2 == { {<<0, 0>>, <<4, 0>>, <<0, 3>>},                                   \* triangle
             {<<0, 0>>, <<4, 0>>, <<5, 3>>, <<1, 4>>, <<2, 2>>, <<3, 1>>},      \* quad with interior points
             {<<0, 0>>, <<8, 1>>, <<9, 2>>, <<1, 1>>},                          \* strongly skewed
             {<<0, 0>>, <<2, 0>>, <<4, 0>>, <<4, 4>>, <<0, 4>>, <<2, 4>>},      \* collinear points on edges
             {<<0, 0>>, <<6, 0>>, <<7, 2>>, <<5, 5>>, <<1, 6>>, <<-1, 3>>} }    \* hexagon
Clouds3 == { {<<0, 0, 0>>, <<3, 0, 0>>, <<0, 3, 0>>, <<0, 0, 3>>, <<1, 1, 1>>},
             {<<0, 0, 0>>, <<2, 0, 0>>, <<0, 2, 0>>, <<2, 2, 0>>, <<0, 0, 2>>, <<2, 0, 2>>, <<0, 2, 2>>, <<2, 2, 2>>} }

(* gamuts of registered systems (2 receptors; more sources than receptors included): the corner cloud of the   *)
(* zonotope {A x : 0 <= x <= ub}.  Samples drawn through the estimator must be uniform over this polygon.      *)
Systems2 == { [A |-> <<<<3, 1, 0>>, <<0, 1, 2>>>>, ub |-> <<1, 1, 1>>],
              [A |-> <<<<3, 1, 0, 2>>, <<0, 1, 2, 1>>>>, ub |-> <<1, 1, 1, 1>>],
              [A |-> <<<<2, 1>>, <<1, 3>>>>, ub |-> <<2, 1>>] }
Init == pc = "init" /\ out = <<>>
Next == /\ pc = "init"
        /\ \/ \E P \in Clouds2 : out' = [d |-> 2, P |-> P, F |-> HullFacets(P), regions |-> FanRegions(P), area2 |-> PolyArea2(P), A |-> <<>>, ub |-> <<>>]
           \/ \E P \in Clouds3 : out' = [d |-> 3, P |-> P, F |-> HullFacets(P), regions |-> {}, area2 |-> 0, A |-> <<>>, ub |-> <<>>]
           \/ \E s \in Systems2 :
                LET P == ZonoCloud(s.A, Vec(Len(s.ub), 0), s.ub)
                IN out' = [d |-> 2, P |-> P, F |-> HullFacets(P), regions |-> FanRegions(P), area2 |-> PolyArea2(P), A |-> s.A, ub |-> s.ub]
        /\ pc' = "done"
Spec == Init /\ [][Next]_vars
(* the fan regions tile the hull: their areas add up to the hull area *)
RECURSIVE SumArea(_)
SumArea(Rs) == IF Rs = {} THEN 0 ELSE LET r == CHOOSE x \in Rs : TRUE IN r.area2 + SumArea(Rs \ {r})
RegionsTile == (pc = "done" /\ out.d = 2) => SumArea(out.regions) = out.area2
=============================================================================
