SPECIFICATION Spec
INVARIANT NonNegative
CHECK_DEADLOCK FALSE
