SPECIFICATION Spec
CONSTANTS Tier = "quick"
INVARIANT MixtureIdentity
INVARIANT AdaptedIsOne
CHECK_DEADLOCK FALSE
