------------------------------- MODULE MC_C18 -------------------------------
EXTENDS Metrics

CONSTANTS Tier, Depth
VARIABLES cloud, hist, meta, exact
vars == <<cloud, hist, meta, exact>>

(* base clouds: 2-D general lattice polygons, flat (collinear) clouds, 2-D / 3-D zonotopes with integer edge lengths *)
Bases ==
  { [name |-> "quad", P |-> {<<0, 0>>, <<4, 0>>, <<5, 3>>, <<1, 4>>, <<2, 2>>}, d |-> 2, zono |-> FALSE, lens |-> <<>>, lb |-> <<>>, ub |-> <<>>, G |-> <<>>],
    [name |-> "tri345", P |-> {<<0, 0>>, <<3, 0>>, <<0, 4>>, <<1, 1>>}, d |-> 2, zono |-> FALSE, lens |-> <<>>, lb |-> <<>>, ub |-> <<>>, G |-> <<>>],
    [name |-> "thin", P |-> {<<0, 0>>, <<1000, 0>>, <<1000, 2>>, <<0, 2>>}, d |-> 2, zono |-> FALSE, lens |-> <<>>, lb |-> <<>>, ub |-> <<>>, G |-> <<>>],
    [name |-> "flat", P |-> {<<0, 0>>, <<3, 4>>, <<6, 8>>}, d |-> 2, zono |-> FALSE, lens |-> <<>>, lb |-> <<>>, ub |-> <<>>, G |-> <<>>],
    [name |-> "rect", P |-> ZonoCloud(<<<<1, 0>>, <<0, 1>>>>, <<0, 0>>, <<3, 2>>), d |-> 2, zono |-> TRUE, lens |-> <<1, 1>>, lb |-> <<0, 0>>, ub |-> <<3, 2>>, G |-> <<<<1, 0>>, <<0, 1>>>>],
    [name |-> "zono2", P |-> ZonoCloud(<<<<3, 0, 4>>, <<4, 5, 3>>>>, <<0, 0, 0>>, <<1, 2, 1>>), d |-> 2, zono |-> TRUE, lens |-> <<5, 5, 5>>, lb |-> <<0, 0, 0>>, ub |-> <<1, 2, 1>>, G |-> <<<<3, 0, 4>>, <<4, 5, 3>>>>],
    [name |-> "box3", P |-> ZonoCloud(Identity(3), <<0, 0, 0>>, <<2, 3, 1>>), d |-> 3, zono |-> TRUE, lens |-> <<1, 1, 1>>, lb |-> <<0, 0, 0>>, ub |-> <<2, 3, 1>>, G |-> Identity(3)],
    [name |-> "zono3", P |-> ZonoCloud(<<<<1, 0, 0, 2>>, <<0, 1, 0, 2>>, <<0, 0, 2, 1>>>>, <<0, 0, 0, 0>>, <<2, 2, 1, 1>>), d |-> 3, zono |-> TRUE, lens |-> <<1, 1, 2, 3>>, lb |-> <<0, 0, 0, 0>>, ub |-> <<2, 2, 1, 1>>,
     G |-> <<<<1, 0, 0, 2>>, <<0, 1, 0, 2>>, <<0, 0, 2, 1>>>>] }

Op(op, a, b) == [op |-> op, a |-> a, b |-> b]
Perms(d) == IF d = 2 THEN {<<1, 2>>, <<2, 1>>} ELSE {<<1, 2, 3>>, <<2, 3, 1>>, <<3, 2, 1>>}
Signs(d) == IF d = 2 THEN {<<1, 1>>, <<-1, 1>>, <<-1, -1>>} ELSE {<<1, 1, 1>>, <<1, -1, 1>>, <<-1, -1, -1>>}
Shifts(d) == IF d = 2 THEN {<<3, -2>>, <<-1, 5>>} ELSE {<<1, -2, 3>>}
News(d) == IF d = 2 THEN {<<7, 7>>, <<2, 1>>, <<-3, 2>>} ELSE {<<4, 4, 4>>, <<1, 1, 0>>}

Vol2(P) == IF Len(CHOOSE x \in P : TRUE) = 2 /\ FullDim2(P) THEN PolyArea2(P) ELSE -1
Dist2(p, q) == Dot(VSub(p, q), VSub(p, q))
FlatLen2(P) == IF Len(CHOOSE x \in P : TRUE) = 2 /\ ~FullDim2(P) THEN SetMax({Dist2(p, q) : p \in P, q \in P}) ELSE -1
(* affine dimension of the cloud: rank of the differences to one of its points (what proj_P_for_hull reports) *)
AffDim(P) == LET sq == SortedVecs(P)
             IN IF Len(sq) = 1 THEN 0 ELSE Rank([k \in 1..(Len(sq) - 1) |-> VSub(sq[k + 1], sq[1])])
(* compute_mean_correlation of a 2-D cloud (each point once): mean over the 2 x 2 matrix |corrcoef| - I, i.e.   *)
(* |r| / 2.  Exactly: (2 * value)^2 = r^2 = Cxy^2 / (Cxx * Cyy) with the N^2-scaled (co)variances below.         *)
(* Undefined (<<-1, 1>>) when a coordinate has no variance, outside 2-D, or beyond the magnitude guard.          *)
AbsI(x) == IF x < 0 THEN -x ELSE x
Corr2(P) ==
  LET sq == SortedVecs(P)
      N == Len(sq)
      Sx == SumTo([k \in 1..N |-> sq[k][1]], N)
      Sy == SumTo([k \in 1..N |-> sq[k][2]], N)
      Cxx == N * SumTo([k \in 1..N |-> sq[k][1] * sq[k][1]], N) - Sx * Sx
      Cyy == N * SumTo([k \in 1..N |-> sq[k][2] * sq[k][2]], N) - Sy * Sy
      Cxy == N * SumTo([k \in 1..N |-> sq[k][1] * sq[k][2]], N) - Sx * Sy
  IN IF Len(sq[1]) # 2 \/ N > 8 \/ (\E k \in 1..N : AbsI(sq[k][1]) > 12 \/ AbsI(sq[k][2]) > 12) THEN <<-1, 1>>
     ELSE IF Cxx = 0 \/ Cyy = 0 THEN <<-1, 1>>
     ELSE R(Cxy * Cxy, Cxx * Cyy)
RECURSIVE Pow(_, _)
Pow(k, n) == IF n = 0 THEN 1 ELSE k * Pow(k, n - 1)
(* exact facts about the current cloud: doubled 2-D area, squared length of a flat cloud, and for zonotope-derived *)
(* clouds (no point added) the exact volume and the mean-width coefficient (width = c_d * wcoef)                 *)
Exact0(b) == [area2 |-> Vol2(b.P), flat2 |-> FlatLen2(b.P), affdim |-> AffDim(b.P), corr2 |-> Corr2(b.P),
              zvol |-> IF b.zono THEN ZonoVolume(b.G, b.lb, b.ub) ELSE -1,
              wcoef |-> IF b.zono THEN WidthCoef(b.lens, b.lb, b.ub) ELSE -1]
ExactNext(e, a, P, d) ==
  [area2 |-> Vol2(P), flat2 |-> FlatLen2(P), affdim |-> AffDim(P), corr2 |-> Corr2(P),
   zvol |-> IF e.zvol < 0 \/ a.op = "addpoint" THEN -1 ELSE IF a.op = "scale" THEN e.zvol * Pow(a.a[1], d) ELSE e.zvol,
   wcoef |-> IF e.wcoef < 0 \/ a.op = "addpoint" THEN -1 ELSE IF a.op = "scale" THEN e.wcoef * a.a[1] ELSE e.wcoef]
Init == \E b \in Bases : cloud = b.P /\ hist = <<>> /\ meta = b /\ exact = Exact0(b)
Next == /\ Len(hist) < Depth
        /\ \/ \E t \in Shifts(meta.d) : cloud' = Translate(cloud, t) /\ hist' = Append(hist, Op("translate", t, <<>>))
           \/ \E pm \in Perms(meta.d), sg \in Signs(meta.d) : cloud' = SignedPermute(cloud, pm, sg) /\ hist' = Append(hist, Op("signperm", pm, sg))
           \/ \E k \in {2, 3} : cloud' = ScaleBy(cloud, k) /\ hist' = Append(hist, Op("scale", <<k>>, <<>>))
           \/ \E x \in News(meta.d) : cloud' = AddPoint(cloud, x) /\ hist' = Append(hist, Op("addpoint", x, <<>>))
        /\ meta' = meta
        /\ exact' = ExactNext(exact, hist'[Len(hist')], cloud', meta.d)
Spec == Init /\ [][Next]_vars

(* exact laws of the exact area under the transformations *)
AreaLaws == [][LET a == hist'[Len(hist')]
               IN (Len(CHOOSE x \in cloud : TRUE) = 2 /\ FullDim2(cloud)) =>
                    /\ (a.op \in {"translate", "signperm"} => PolyArea2(cloud') = PolyArea2(cloud))
                    /\ (a.op = "scale" => PolyArea2(cloud') = a.a[1] * a.a[1] * PolyArea2(cloud))
                    /\ (a.op = "addpoint" => PolyArea2(cloud') >= PolyArea2(cloud))]_vars
(* the squared correlation is invariant under translation, positive scaling, permutation and sign changes of the *)
(* coordinates (where both sides are within the magnitude guard)                                                *)
CorrLaws == [][LET a == hist'[Len(hist')]
               IN (a.op \in {"translate", "signperm", "scale"} /\ exact.corr2[1] >= 0 /\ exact'.corr2[1] >= 0)
                    => exact'.corr2 = exact.corr2]_vars
(* zonotope volume formula agrees with the hull area for the untouched 2-D zonotope bases *)
ZonoAgrees == (hist = <<>> /\ meta.zono /\ meta.d = 2) => PolyArea2(cloud) = 2 * ZonoVolume(meta.G, meta.lb, meta.ub)
=============================================================================
