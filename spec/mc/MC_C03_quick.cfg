SPECIFICATION Spec
CONSTANTS Tier = "quick"
INVARIANT OracleAgreesWithDefinition
INVARIANT AllClassesPresent
INVARIANT CornersIn
INVARIANT FarOut
INVARIANT InteriorIn
CHECK_DEADLOCK FALSE
