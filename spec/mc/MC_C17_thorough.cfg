SPECIFICATION Spec
CONSTANTS Tier = "thorough"
INVARIANT AlphaOnBoundary
INVARIANT SlicesOnPlane
INVARIANT VerticesAreExtreme
CHECK_DEADLOCK FALSE
