SPECIFICATION Spec
CONSTANTS Tier = "thorough"
INVARIANT OracleIsOptimal
INVARIANT ZeroErrorIffInGamut
INVARIANT BothKinds
CHECK_DEADLOCK FALSE
