------------------------------- MODULE MC_C12 -------------------------------
EXTENDS Scaling

CONSTANTS Tier
VARIABLES pc, key, out
vars == <<pc, key, out>>

Families == {"s22", "s23", "s33", "kb", "off", "lbpos"} \cup (IF Tier = "quick" THEN {} ELSE {"s34"})    \* kb3 (adaptation x baseline with 3 receptors) exceeds the 32-bit rationals of the chromatic scaling
A44 == <<<<3, 1, 0, 0>>, <<1, 3, 1, 0>>, <<0, 1, 3, 1>>, <<0, 0, 1, 3>>>>
KPosSV(d) == KVariantsPos(d)    \* none / scalar / vector and the non-negative matrix adaptation
SystemsOf(f) ==
  CASE f = "s22" -> {Plain(A22, 4, Vec(2, 0), Vec(2, 4)), Plain(A22, 4, Vec(2, 0), <<4, 8>>), Plain(<<<<3, 0>>, <<0, 2>>>>, 4, Vec(2, 0), Vec(2, 4))}
    [] f = "s23" -> {Plain(A23, 4, Vec(3, 0), Vec(3, 4)), Plain(A23b, 4, Vec(3, 0), <<4, 8, 4>>)}
    [] f = "s33" -> {Plain(A33, 4, Vec(3, 0), Vec(3, 4))}
    (* a source that is switched off (ub = 0) and whose chromaticity would be a vertex of the chromatic gamut *)
    [] f = "off" -> {Plain(A23, 4, Vec(3, 0), <<0, 4, 4>>), Plain(A23, 4, Vec(3, 0), <<4, 4, 0>>), Plain(A33, 4, Vec(3, 0), <<4, 4, 0>>)}
    (* positive lower bounds and no baseline: A lb acts like a baseline, so corners with SEVERAL sources at their upper *)
    (* bound are vertices of the chromatic gamut (the single-source corners do not span it)                              *)
    [] f = "lbpos" -> {Plain(A23, 4, Vec(3, 1), Vec(3, 4)), Plain(A33, 4, Vec(3, 1), Vec(3, 4)), Plain(A23b, 4, <<2, 0, 1>>, <<4, 8, 4>>)}
    [] f = "s34" -> {Plain(A34, 4, Vec(4, 0), Vec(4, 4))}
    [] f = "s44" -> {Plain(A44, 4, Vec(4, 0), Vec(4, 4))}
    [] f = "kb" -> SysKBOf(A22, Vec(2, 0), Vec(2, 4), KPosSV(2)) \cup SysKBOf(A23, Vec(3, 0), Vec(3, 4), {k \in KPosSV(2) : k[3] <= 2})
    [] f = "kb3" -> SysKBOf(A33, Vec(3, 0), Vec(3, 4), {k \in KPosSV(3) : k[3] = 1})    \* magnitude guard

(* target rows: non-negative lattice points, in units 1/S, spread over and beyond the gamut *)
RowPool(s) ==
  LET d == Len(s.A)
      S == s.D * s.DK
      top == [i \in 1..d |-> BoxHi(s, i, s.ub)]
  IN {[i \in 1..d |-> (top[i] * f[i]) \div 4] : f \in [1..d -> {0, 1, 2, 5}]}
TargetSets(s) ==
  LET P == RowPool(s)
      zero == Vec(Len(s.A), 0)
      nz == P \ {zero}
      pick == {r \in nz : TRUE}
  IN {<<r>> : r \in pick} \cup {t \in {<<r, q>> : r \in pick, q \in pick} : VLess(t[1], t[2])} \cup {<<zero, r>> : r \in pick}
Neutrals(d) == {Vec(d, 1), [i \in 1..d |-> IF i = 1 THEN 3 ELSE 2]}

Init == pc = "init" /\ key = "" /\ out = <<>>
Level1 == pc = "init" /\ \E f \in Families : key' = f /\ pc' = "fam" /\ out' = out
Level2 == /\ pc = "fam"
          /\ \E s \in SystemsOf(key) : \E nu0 \in Neutrals(Len(s.A)) :
               ChromOK(s) /\ NeutralInside(ConeFacets(ChromGens(s)), nu0) /\ out' = [fam |-> key, sys |-> s, nu0 |-> nu0]
          /\ pc' = "sys" /\ key' = key
Level3 == /\ pc = "sys"
          /\ LET s == out.sys
                 TS == {t \in TargetSets(s) : Len(t) = 1 \/ IsZero(t[1]) \/ t[1][1] = 0}     \* all pairs exceed the 32-bit rationals for the adaptation families
             IN out' = [fam |-> out.fam, sys |-> s, nu0 |-> out.nu0,
                        chrom_ok |-> ChromOK(s),
                        cases |-> {LET ds == DistScaled(s, Bs, out.nu0)
                                   IN [Bs |-> Bs, l1 |-> L1Scaled(s, Bs), l1ok |-> BMax(s, Bs) > 0, l1factor |-> IF BMax(s, Bs) > 0 THEN L1Factor(s, Bs) ELSE <<0, 1>>,
                                       dist |-> ds,
                                       laws |-> (ds.ok => TotalsPreserved(Bs, ds) /\ ScaledInside(s, ds))] : Bs \in {t \in TS : BMax(s, t) > 0}}]
          /\ pc' = "done" /\ key' = key
Next == Level1 \/ Level2 \/ Level3
Spec == Init /\ [][Next]_vars
ScalingLaws == pc = "done" => \A c \in out.cases : c.laws
NonVacuous == pc = "done" => (\E c \in out.cases : c.dist.ok /\ ~c.dist.allin) /\ (\E c \in out.cases : c.dist.allin)
=============================================================================
