------------------------------- MODULE MC_C20 -------------------------------
EXTENDS Units, TLC

CONSTANTS Tier
VARIABLES pc, key, out
vars == <<pc, key, out>>

Lams == IF Tier = "quick" THEN {100, 500, 700, 2000} ELSE {100 * k : k \in 1..20}
Irrs == {-2, 0, 1, 3}
Prefixes == 0..3
(* shape classes: "s" scalar, "v" 1-D (n wavelengths), "m0"/"m1" 2-D with the      *)
(* wavelength on axis 0 / 1 (axis passed), "mb" 2-D broadcast (axis not passed)    *)
(* "c0","c1","c2": 3-D array (2 x 2 x n) with the wavelength moved to axis 0 / 1 / 2 (axis passed) *)
Shapes == {"s", "v", "m0", "m1", "mb", "c0", "c1", "c2"}
UnitModes == {"plain", "pint-I", "pint-uWcm2", "pint-um"}

LamVec(l0) == <<l0, l0 + 100, l0 + 300>>
Spec1(i0) == <<i0, i0 + 1, 2 * i0 - 1>>
Spec2(i0) == <<3 - i0, i0, i0 + 2>>

Init == pc = "init" /\ key = <<>> /\ out = <<>>
Level1 == pc = "init" /\ \E sh \in Shapes, um \in UnitModes, p \in Prefixes : key' = <<sh, um, p>> /\ pc' = "key" /\ out' = out
Level2 ==
  /\ pc = "key"
  /\ \E l0 \in Lams, i0 \in Irrs :
       LET sh == key[1]
           um == key[2]
           p == key[3]
           ue == IF um = "pint-uWcm2" THEN -2 ELSE 0
           lam == IF sh = "s" THEN <<l0>> ELSE LamVec(l0)
           rows == IF sh = "s" THEN <<<<i0>>>> ELSE IF sh = "v" THEN <<Spec1(i0)>> ELSE <<Spec1(i0), Spec2(i0)>>
       IN out' = [shape |-> sh, units |-> um, p |-> p, lam |-> lam, rows |-> rows, ue |-> ue,
                  flux |-> [r \in 1..Len(rows) |-> [j \in 1..Len(lam) |-> Irr2Flux(rows[r][j], ue, lam[j], 0, p)]],
                  laws |-> /\ \A j \in 1..Len(lam) : Inverse(rows[1][j], lam[j], p) /\ PrefixScales(rows[1][j], lam[j], p)
                                                     /\ UnitsAgree(rows[1][j], lam[j])
                           /\ Linear(2, -3, rows[1][1], rows[Len(rows)][1], lam[1], p)]
  /\ pc' = "done" /\ key' = key
Next == Level1 \/ Level2
Spec == Init /\ [][Next]_vars
Laws == pc = "done" => out.laws
=============================================================================
