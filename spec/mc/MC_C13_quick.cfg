SPECIFICATION Spec
CONSTANTS Tier = "quick"
INVARIANT RegionsTile
CHECK_DEADLOCK FALSE
