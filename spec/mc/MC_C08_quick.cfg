SPECIFICATION Spec
CONSTANTS Tier = "quick"
INVARIANT OraclesAreOptimal
INVARIANT NonVacuous
CHECK_DEADLOCK FALSE
