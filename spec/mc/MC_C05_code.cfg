SPECIFICATION CodeSpec
CONSTANTS MaxN = 6
          Deviations = FALSE
INVARIANT TypeOK
INVARIANT NeverTwice
INVARIANT OnlyRealRows
INVARIANT DoneMeansAll
INVARIANT NoFailure
INVARIANT BatchInvariant
INVARIANT Covered
PROPERTY Terminates
CHECK_DEADLOCK FALSE
