------------------------------- MODULE MC_C01 -------------------------------
(* Exhaustive case enumeration for C01: every state with pc = "done" is one  *)
(* call of calculate_capture / integral with its exact expected result.      *)
(* Two-level enumeration (level 1 picks the shape class, sizes and domain;   *)
(* level 2 expands the arrays) so that level 2 runs on all workers.          *)
EXTENDS Capture

CONSTANTS NDs,        \* set of domain lengths
          ArrDoms,    \* set of array domains (sequences, units 1/2) or {} 
          Steps,      \* set of <<p, q>> scalar steps
          BatchToo    \* BOOLEAN: include the batch shape classes

VARIABLES pc, key, out
vars == <<pc, key, out>>

DX == 2
Vals(cells) == IF cells <= 4 THEN {-1, 0, 2} ELSE {-1, 2}
Mats(r, nd) == [1..r -> [1..nd -> Vals(r * nd)]]
Small1(nd) == { [k \in 1..nd |-> k], [k \in 1..nd |-> IF k % 2 = 1 THEN -1 ELSE 2] }
Small2(r, nd) == { [i \in 1..r |-> [k \in 1..nd |-> i + 2 * k - 2]],
                   [i \in 1..r |-> [k \in 1..nd |-> IF (i + k) % 2 = 0 THEN -1 ELSE i]] }
Batch(r, nd) == { <<M1, M2>> : M1 \in Small2(r, nd), M2 \in Mats(r, nd) }
SmallB(r, nd) == { <<M1, M2>> : M1 \in Small2(r, nd), M2 \in Small2(r, nd) }

Shapes == {<<"11", 1, 1>>, <<"12", 1, 1>>, <<"12", 1, 2>>, <<"21", 1, 1>>, <<"21", 2, 1>>,
           <<"22", 1, 1>>, <<"22", 2, 1>>, <<"22", 1, 2>>, <<"22", 2, 2>>}
          \cup (IF BatchToo THEN {<<"32", 2, 2>>, <<"23", 2, 2>>, <<"33", 2, 1>>, <<"33", 1, 2>>} ELSE {})

(* the pools of F and S for a shape class: mode "F" varies filters fully,   *)
(* mode "S" varies signals fully, the other side comes from a small pool.   *)
PoolF(sc, nf, nd, full) ==
  CASE sc \in {"11", "12"} -> IF full THEN [1..nd -> Vals(nd)] ELSE Small1(nd)
    [] sc \in {"21", "22", "23"} -> IF full THEN Mats(nf, nd) ELSE Small2(nf, nd)
    [] sc \in {"32", "33"} -> IF full THEN Batch(nf, nd) ELSE SmallB(nf, nd)
PoolS(sc, ns, nd, full) ==
  CASE sc \in {"11", "21"} -> IF full THEN [1..nd -> Vals(nd)] ELSE Small1(nd)
    [] sc \in {"12", "22", "32"} -> IF full THEN Mats(ns, nd) ELSE Small2(ns, nd)
    [] sc \in {"23", "33"} -> IF full THEN Batch(ns, nd) ELSE SmallB(ns, nd)

DomVariants(nd) ==
  { [dom |-> d, p |-> 1, q |-> 1, trapz |-> TRUE] : d \in {x \in ArrDoms : Len(x) = nd} }
  \cup { [dom |-> <<>>, p |-> s[1], q |-> s[2], trapz |-> t] : s \in Steps, t \in BOOLEAN }

Init == pc = "init" /\ key = <<>> /\ out = <<>>

Level1 == /\ pc = "init"
          /\ \E sh \in Shapes, nd \in NDs, mode \in {"F", "S"} :
               \E dv \in DomVariants(nd) :
                 key' = [sc |-> sh[1], nf |-> sh[2], ns |-> sh[3], nd |-> nd, mode |-> mode, dv |-> dv]
          /\ pc' = "key" /\ out' = out

Level2 == /\ pc = "key"
          /\ \E F \in PoolF(key.sc, key.nf, key.nd, key.mode = "F"),
                S \in PoolS(key.sc, key.ns, key.nd, key.mode = "S") :
               out' = [op |-> "calculate_capture", sc |-> key.sc, F |-> F, S |-> S,
                       dom |-> key.dv.dom, DX |-> DX, p |-> key.dv.p, q |-> key.dv.q, trapz |-> key.dv.trapz,
                       scale |-> ScaleOf(key.dv.dom, DX, key.dv.q, key.dv.trapz),
                       exp |-> CaptureOf(key.sc, F, S, key.dv.dom, key.dv.p, key.dv.trapz),
                       iscale |-> ScaleOf(key.dv.dom, DX, key.dv.q, TRUE),
                       expI |-> IntegralRows(key.sc, S, key.dv.dom, key.dv.p)]
          /\ pc' = "done" /\ key' = key

Next == Level1 \/ Level2
Spec == Init /\ [][Next]_vars

(* --- invariants on every generated case ---------------------------------- *)
Row(sc, M) == IF sc \in {"11", "12"} THEN M ELSE IF sc \in {"21", "22", "23"} THEN M[1] ELSE M[1][1]
RowS(sc, M) == IF sc \in {"11", "21"} THEN M ELSE IF sc \in {"12", "22", "32"} THEN M[1] ELSE M[1][1]
First(sc, e) == IF sc = "11" THEN e ELSE IF sc \in {"12", "21"} THEN e[1] ELSE IF sc = "22" THEN e[1][1] ELSE e[1][1][1]

(* entry (first signal, first filter) depends on nothing but that pair       *)
PairwiseOnly == pc = "done" =>
   First(out.sc, out.exp) = ValOf(Prod(Row(out.sc, out.F), RowS(out.sc, out.S)), out.dom, out.p, out.trapz)
(* a scalar step is the explicit domain 0, dx, 2dx, ...                        *)
DxEquivalent == (pc = "done" /\ out.dom = <<>> /\ out.trapz) =>
   LET y == Prod(Row(out.sc, out.F), RowS(out.sc, out.S)) IN DxIsDomain(y, out.p)
DefinitionAgrees == (pc = "done" /\ out.dom # <<>>) =>
   LET y == Prod(Row(out.sc, out.F), RowS(out.sc, out.S)) IN DefAgrees(y, out.dom)

(* --- tier definitions ------------------------------------------------------ *)
ArrDomsQuick == {<<1, 4>>, <<0, 1, 4>>, <<2, 3, 7>>}
StepsQuick == {<<1, 2>>, <<3, 1>>}
ArrDomsThorough == {<<a, b>> : a \in 0..4, b \in 1..6} \cap {s \in Seq(0..6) : Len(s) = 2 /\ s[1] < s[2]}
ArrAsc(n, mx) == {s \in [1..n -> 0..mx] : \A k \in 1..(n - 1) : s[k] < s[k + 1]}
ArrDomsThoroughAll == ArrAsc(2, 5) \cup ArrAsc(3, 5) \cup ArrAsc(4, 5)
StepsThorough == {<<1, 1>>, <<1, 2>>, <<2, 1>>, <<3, 1>>, <<1, 4>>}
=============================================================================
