------------------------------- MODULE MC_C09 -------------------------------
EXTENDS Variance

CONSTANTS Tier
VARIABLES pc, key, out
vars == <<pc, key, out>>

G == IF Tier = "quick" THEN 3 ELSE 5
Span == 8
Families == {"s23", "s22", "kb"} \cup (IF Tier = "quick" THEN {} ELSE {"s12", "s13", "s33", "kbm"})
SystemsOf(f) ==
  CASE f = "s23" -> SysBoundsOf(A23) \cup {Plain(A23b, 4, Vec(3, 0), Vec(3, 4))}
    [] f = "s22" -> SysBoundsOf(A22)
    [] f = "s12" -> SysBoundsOf(A12)
    [] f = "s13" -> SysBoundsOf(A13)
    [] f = "s33" -> {Plain(A33, 4, Vec(3, 0), Vec(3, 4))}
    [] f = "kb" -> SysKBOf(A23, Vec(3, 0), Vec(3, 4), {k \in KVariantsPos(2) : k[3] <= 2})
    [] f = "kbm" -> SysKBOf(A23, Vec(3, 0), Vec(3, 4), {k \in KVariants(2) : k[3] <= 2 /\ k[1] = "matrix"})
(* explicit variance matrix for n sources, d receptors *)
EpsM(d, n) == [i \in 1..d |-> [j \in 1..n |-> 1 + ((i + 2 * j) % 3)]]
EKinds == {"hetero", "explicit"}

Init == pc = "init" /\ key = "" /\ out = <<>>
Level1 == pc = "init" /\ \E f \in Families : key' = f /\ pc' = "fam" /\ out' = out
Level2 == /\ pc = "fam"
          /\ \E s \in SystemsOf(key), ek \in EKinds : out' = [fam |-> key, sys |-> s, ek |-> ek]
          /\ pc' = "sys" /\ key' = key
Level3 == /\ pc = "sys"
          /\ LET s == out.sys
                 E == EpsM(Len(s.A), Len(s.A[1]))
             IN out' = [fam |-> out.fam, sys |-> s, ek |-> out.ek, E |-> E,
                        recs |-> {VarRecord(s, b, out.ek, E) : b \in Targets(s, G, Span)}]
          /\ pc' = "done" /\ key' = key
Next == Level1 \/ Level2 \/ Level3
Spec == Init /\ [][Next]_vars
Stage2IsOptimal == pc = "done" => \A r \in out.recs : r.ok
BothKinds == pc = "done" => (\E r \in out.recs : r.zero) /\ (\E r \in out.recs : ~r.zero)
=============================================================================
