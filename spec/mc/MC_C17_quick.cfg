SPECIFICATION Spec
CONSTANTS Tier = "quick"
INVARIANT AlphaOnBoundary
INVARIANT SlicesOnPlane
INVARIANT VerticesAreExtreme
CHECK_DEADLOCK FALSE
