------------------------------- MODULE MC_C03 -------------------------------
(* C03: one state per system; the state carries every target of the system's  *)
(* target set with its exact class.  Invariant: H-form oracle == V-form        *)
(* definition for every target.                                                *)
EXTENDS Convex

CONSTANTS Tier
VARIABLES pc, key, out
vars == <<pc, key, out>>

G == IF Tier = "quick" THEN 6 ELSE 8
Span == 8

Families ==
  {"mat22", "mat23", "bounds", "kb", "unb", "thin", "odd", "blout"} \cup
  (IF Tier = "quick" THEN {} ELSE {"mat33", "mat24", "kb3", "mat34"})

SystemsOf(f) ==
  CASE f = "mat22" -> SysMatrix(2, 2, 0..3)
    [] f = "mat23" -> SysMatrix(2, 3, IF Tier = "quick" THEN 0..2 ELSE 0..3)
    [] f = "mat24" -> SysMatrix(2, 4, 0..1) \cup SysBoundsOf(A24)
    [] f = "mat33" -> SysMatrix(3, 3, 0..1) \cup SysBoundsOf(A33)
    [] f = "mat34" -> {Plain(A34, 4, Vec(4, 0), Vec(4, 4))} \cup SysBoundsOf(A34)
    [] f = "bounds" -> UNION {SysBoundsOf(A) : A \in {A22, A23, A23b, A24, A33}}
    [] f = "kb" -> UNION {SysKBOf(A, Vec(Len(A[1]), 0), Vec(Len(A[1]), 4), KVariants(2)) \cup
                          SysKBOf(A, Vec(Len(A[1]), 2), Vec(Len(A[1]), 8), KVariants(2)) : A \in {A22, A23}}
    \* a baseline whose chromaticity lies outside the cone of the sources' chromaticities (the dim corner of the gamut
    \* is then a vertex of the chromatic gamut)
    [] f = "blout" -> {Sys(A22, 4, Vec(2, 0), Vec(2, 4), "none", Identity(2), 1, "vector", <<6, 0>>),
                       Sys(A22, 4, Vec(2, 0), Vec(2, 4), "none", Identity(2), 1, "vector", <<0, 9>>),
                       Sys(A33, 4, Vec(3, 0), Vec(3, 4), "none", Identity(3), 1, "vector", <<8, 0, 0>>)}
    [] f = "kb3" -> SysKBOf(A33, Vec(3, 0), Vec(3, 4), KVariants(3)) \cup SysKBOf(A34, Vec(4, 0), Vec(4, 4), KVariants(3))
    [] f = "unb" -> UNION {SysUnbOf(A) : A \in {A22, A23, A33}} \cup
                    UNION {SysKBOf(A, Vec(Len(A[1]), 0), Vec(Len(A[1]), INF), KVariants(Len(A))) : A \in {A22, A23}} \cup
                    UNION {SysKBOf(A, [j \in 1..Len(A[1]) |-> IF j = 1 THEN 1 ELSE 2], Vec(Len(A[1]), INF), KVariants(Len(A))) : A \in {A22, A23}}
    [] f = "odd" -> UNION {SysOddOf(A, TRUE) \cup SysOddOf(A, FALSE) : A \in {A22, A23, A33}}
    [] f = "thin" -> UNION {SysBoundsOf(A) \cup SysUnbOf(A) : A \in {A32, A21, A31}}
                      \* a flat gamut with MORE corners than receptors + 1 (4 receptors x 3 sources: 8 corners)
                      \cup {Plain(<<<<2, 0, 1>>, <<1, 1, 0>>, <<0, 2, 1>>, <<1, 0, 2>>>>, 4, Vec(3, 0), Vec(3, 4))}

Init == pc = "init" /\ key = "" /\ out = <<>>
Level1 == pc = "init" /\ \E f \in Families : key' = f /\ pc' = "fam" /\ out' = out
Level2 == /\ pc = "fam"
          /\ \E s \in SystemsOf(key) :
               LET T == Targets(s, G, Span)
                   p == Prep(s)
               IN out' = [fam |-> key, sys |-> s,
                          targets |-> {[b |-> b, cls |-> ClassP(s, p, b)] : b \in T},
                          chrom |-> IF ChromOK(s) /\ Len(s.A[1]) >= Len(s.A)
                                    THEN LET V == ChromGens(s)
                                         IN {[b |-> b, cls |-> ChromClass(V, b)] : b \in {t \in T : ChromTargetOK(t)}}
                                    ELSE {},
                          agree |-> \A b \in T : (ClassP(s, p, b) # "exterior") <=> ReproducibleP(s, p, b)]
          /\ pc' = "done" /\ key' = key
Next == Level1 \/ Level2
Spec == Init /\ [][Next]_vars

OracleAgreesWithDefinition == pc = "done" => out.agree
(* every system has targets of every class (non-vacuity of the lattice)         *)
AllClassesPresent == pc = "done" =>
   \A c \in {"interior", "exterior"} : \E t \in out.targets : t.cls = c
(* corner images are never exterior, far targets always are                      *)
CornersIn == pc = "done" => \A b \in CornerTargets(out.sys, Span) : ClassOf(out.sys, b) # "exterior"
FarOut == (pc = "done" /\ Bounded(out.sys)) => \A b \in FarTargets(out.sys, Span) : ClassOf(out.sys, b) = "exterior"
InteriorIn == pc = "done" => \A b \in InteriorTargets(out.sys, Span) : ClassOf(out.sys, b) # "exterior"
=============================================================================
