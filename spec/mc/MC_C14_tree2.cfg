SPECIFICATION MCSpec
CONSTANTS
  Filters <- FiltersDef
  SrcPool <- SrcPoolDef
  BoundPool <- BoundPoolDef
  KPool <- KPoolDef
  BlPool <- BlPoolDef
  BgPool <- BgPoolDef
  XaPool <- XaPoolDef
  TgtPool <- TgtPoolDef
  MaxDK = 60
  Depth = 2
INVARIANT AnswersDependOnStateOnly
PROPERTY QueriesArePure
PROPERTY FrameOK
PROPERTY AdaptedBackgroundIsOne
PROPERTY AdaptedSystemIsOne
CHECK_DEADLOCK FALSE
