SPECIFICATION GenericSpec
CONSTANTS MaxN = 5
          Deviations = FALSE
INVARIANT TypeOK
INVARIANT NeverTwice
INVARIANT OnlyRealRows
INVARIANT DoneMeansAll
INVARIANT BatchInvariant
CHECK_DEADLOCK FALSE
