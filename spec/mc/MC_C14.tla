------------------------------- MODULE MC_C14 -------------------------------
(* Exhaustive histories of ReceptorEstimator calls over small value pools.    *)
(* Every state carries its history and the answers of all read-only queries,  *)
(* so that the harness can replay the history into a fresh object and compare *)
(* every answer (C14), including captures / adaptation (C02).                 *)
EXTENDS Estimator

CONSTANTS Depth,
          Mode      \* "all": every history; "rereg": register_system, then calls that all write the same slot
VARIABLES ans
vars == <<est, hist, ans>>

r(n, d) == R(n, d)
FiltersDef == <<<<0, 1, 0, 0>>, <<0, 0, 1, 0>>>>
SrcPoolDef == << <<<<0, 2, 1, 0>>, <<0, 1, 3, 0>>>>,
                 <<<<0, 3, 0, 0>>, <<0, 1, 1, 0>>, <<0, 0, 2, 0>>>> >>
BoundPoolDef == << <<<<>>, <<r(1, 1), r(1, 1)>>>>,
                   <<<<r(1, 4), r(1, 4)>>, <<r(2, 1), r(2, 1)>>>>,
                   <<<<r(1, 2), r(0, 1)>>, <<>>>>,
                   <<<<>>, <<r(1, 1), r(1, 1), r(1, 1)>>>>,
                   <<<<r(1, 4), r(0, 1), r(1, 4)>>, <<r(2, 1), r(1, 1), r(2, 1)>>>>,
                   <<<<>>, <<>>>>,
                   (* partial updates that cross the opposite bound registered before (7: lb only, 8: ub only) *)
                   <<<<r(3, 2), r(3, 2)>>, <<>>>>,
                   <<<<>>, <<r(3, 1), r(3, 1)>>>> >>
KPoolDef == << [shape |-> "1", K |-> RDiag(<<r(1, 2), r(1, 2)>>)],
               [shape |-> "d", K |-> RDiag(<<r(1, 1), r(1, 2)>>)],
               [shape |-> "dd", K |-> <<<<r(1, 1), r(0, 1)>>, <<r(1, 2), r(1, 1)>>>>] >>
BlPoolDef == << [shape |-> "1", bl |-> <<r(0, 1), r(0, 1)>>],
                [shape |-> "1", bl |-> <<r(1, 2), r(1, 2)>>],
                [shape |-> "d", bl |-> <<r(1, 4), r(1, 2)>>] >>
BgPoolDef == << <<0, 2, 1, 0>>, <<0, 1, 3, 0>> >>
XaPoolDef == << <<1, 1>>, <<1, 1, 1>>, <<2, 0, 1>> >>
TgtPoolDef == << <<<<r(1, 1), r(1, 1)>>, <<r(7, 2), r(1, 4)>>>>,
                 <<<<r(1, 2), r(3, 2)>>>> >>

WPoolDef == << <<2, 1>>, <<1, 3>> >>
UncPoolDef == << <<<<0, 1, 0, 0>>, <<0, 0, 2, 0>>>>,
                 <<<<0, 2, 1, 0>>, <<0, 1, 1, 0>>>> >>

MCInit == Init /\ ans = Answers(InitEst)
Group(op) == CASE op \in {"register_adaptation", "register_background_adaptation", "register_system_adaptation"} -> "K"
               [] op = "register_baseline" -> "baseline"
               [] op \in {"register_bounds", "register_system", "register_system_bad", "register_uncertainty"} -> "system"
               [] op \in {"register_targets", "fit"} -> "targets"
               [] OTHER -> "query"
(* re-registration histories: the clause "re-registering a value fully replaces the old one" *)
ReregOK(h) == IF Mode # "rereg" THEN TRUE
              ELSE /\ h[1].op = "register_system" /\ h[1].k \in {101, 204}
                   /\ \A i \in 2..Len(h) : Group(h[i].op) = Group(h[2].op) /\ h[i].op # "query"
MCNext == Len(hist) < Depth /\ (IF Len(hist) = 0 THEN TRUE ELSE hist[Len(hist)].op # "query") /\ ENext /\ ReregOK(hist') /\ ans' = Answers(est')
MCSpec == MCInit /\ [][MCNext]_vars
DepthBound == Len(hist) <= Depth
(* queries add nothing new to explore: do not extend histories beyond one query  *)
NoQueryChains == Len(hist) < 2 \/ hist[Len(hist) - 1].op # "query"

AnswersDependOnStateOnly == ans = Answers(est)
EstView == <<est, ans>>
=============================================================================
