SPECIFICATION Spec
CONSTANTS Tier = "thorough"
INVARIANT MixtureIdentity
INVARIANT AdaptedIsOne
CHECK_DEADLOCK FALSE
