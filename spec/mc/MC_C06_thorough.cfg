SPECIFICATION Spec
CONSTANTS Tier = "thorough"
INVARIANT RangeConsistent
INVARIANT FitInsideRange
INVARIANT NonVacuous
CHECK_DEADLOCK FALSE
