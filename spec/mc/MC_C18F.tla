------------------------------ MODULE MC_C18F ------------------------------
(* Clouds with fewer points than dimensions (segments and triangles in 3-5-D): the volume within the  *)
(* affine span, exactly, as a squared quantity (Gram determinant):                                     *)
(*   2 points: len2  = |q - p|^2                       (volume = sqrt(len2))                           *)
(*   3 points: area4 = |u|^2 |v|^2 - (u.v)^2 = (2 area)^2   with u = q - p, v = r - p                  *)
EXTENDS DLin
VARIABLES pc, out
vars == <<pc, out>>
Pts(d) == { [i \in 1..d |-> IF i = 1 THEN 3 ELSE IF i = 2 THEN 4 ELSE 0],
            [i \in 1..d |-> IF i = d THEN 2 ELSE IF i = 1 THEN 1 ELSE 0],
            [i \in 1..d |-> IF i % 2 = 0 THEN 2 ELSE -1],
            [i \in 1..d |-> 0] }
Init == pc = "init" /\ out = <<>>
Next == /\ pc = "init" /\ pc' = "done"
        /\ \/ \E d \in 3..5 : \E p \in Pts(d), q \in Pts(d) :
                p # q /\ out' = [kind |-> "segment", d |-> d, P |-> <<p, q>>, sq |-> Dot(VSub(q, p), VSub(q, p))]
           \/ \E d \in 3..5 : \E p \in Pts(d), q \in Pts(d), r \in Pts(d) :
                /\ p # q /\ p # r /\ q # r
                /\ LET u == VSub(q, p)
                       v == VSub(r, p)
                   IN out' = [kind |-> "triangle", d |-> d, P |-> <<p, q, r>>, sq |-> Dot(u, u) * Dot(v, v) - Dot(u, v) * Dot(u, v)]
Spec == Init /\ [][Next]_vars
(* Cauchy-Schwarz: the Gram determinant is never negative *)
NonNegative == pc = "done" => out.sq >= 0
=============================================================================
