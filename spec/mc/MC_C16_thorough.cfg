SPECIFICATION Spec
CONSTANTS Tier = "thorough"
INVARIANT SphereLaws
INVARIANT SimplexLaws
CHECK_DEADLOCK FALSE
