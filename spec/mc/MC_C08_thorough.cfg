SPECIFICATION Spec
CONSTANTS Tier = "thorough"
INVARIANT OraclesAreOptimal
INVARIANT NonVacuous
CHECK_DEADLOCK FALSE
