SPECIFICATION Spec
CONSTANTS Tier = "quick"
          Depth = 2
PROPERTY AreaLaws
INVARIANT ZonoAgrees
CHECK_DEADLOCK FALSE
