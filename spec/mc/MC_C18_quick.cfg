SPECIFICATION Spec
CONSTANTS Tier = "quick"
          Depth = 2
PROPERTY AreaLaws
PROPERTY CorrLaws
INVARIANT ZonoAgrees
CHECK_DEADLOCK FALSE
