SPECIFICATION Spec
CONSTANTS MaxIter = 4
          Subsample = TRUE
          MaxLoss = 3
INVARIANT TypeOK
INVARIANT IterBound
INVARIANT ReasonSet
INVARIANT MaxIterMeansExhausted
INVARIANT EarlyStopNotFirst
PROPERTY Descent
PROPERTY FinalXAfterStop
PROPERTY FinalPIffSubsample
PROPERTY Terminates
CHECK_DEADLOCK FALSE
