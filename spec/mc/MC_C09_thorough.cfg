SPECIFICATION Spec
CONSTANTS Tier = "thorough"
INVARIANT Stage2IsOptimal
INVARIANT BothKinds
CHECK_DEADLOCK FALSE
