------------------------------- MODULE MC_C10 -------------------------------
EXTENDS Adaptive
CONSTANTS Tier
VARIABLES pc, key, out
vars == <<pc, key, out>>

Families == {"s22", "s23", "kb"} \cup (IF Tier = "quick" THEN {} ELSE {"s33", "s34"})
KPosSV(d) == {k \in KVariants(d) : k[1] \in {"none", "scalar", "vector"} /\ k[3] <= 2}
(* small units (D = 2) keep the polygon arithmetic within 32 bits *)
SystemsOf(f) ==
  CASE f = "s22" -> {Plain(A22, 2, Vec(2, 0), Vec(2, 2)), Plain(A22, 2, <<1, 0>>, <<2, 4>>),
                     Plain(A22, 2, <<-1, 0>>, <<2, 2>>)}         \* a negative lower bound (rig addressed relative to a background)
    [] f = "s23" -> {Plain(A23, 2, Vec(3, 0), Vec(3, 2)), Plain(A23b, 2, Vec(3, 0), <<2, 4, 2>>)}
    [] f = "s33" -> {Plain(A33, 2, Vec(3, 0), Vec(3, 2))}
    [] f = "s34" -> {Plain(A34, 2, Vec(4, 0), Vec(4, 2))}
    [] f = "kb" -> {Sys(A22, 2, Vec(2, 0), Vec(2, 2), "vector", Diag(<<1, 2>>), 1, "vector", <<1, 1>>),
                    Sys(A22, 2, Vec(2, 0), Vec(2, 2), "scalar", Diag(<<2, 2>>), 1, "scalar", <<1, 1>>),
                    Sys(A23, 2, Vec(3, 0), Vec(3, 2), "none", Identity(2), 1, "vector", <<1, 2>>)}

RowPool(s) ==
  LET d == Len(s.A)
      top == [i \in 1..d |-> BoxHi(s, i, s.ub)]
  IN {[i \in 1..d |-> Max2(1, (top[i] * f[i]) \div 4)] : f \in [1..d -> {1, 2, 5}]}
     \cup {[i \in 1..d |-> IF i = j THEN -2 ELSE Max2(2, top[i] \div 2)] : j \in 1..d}     \* far outside: a negative component
TargetSets(s) ==
  LET P == RowPool(s)
  IN {<<r>> : r \in P} \cup {t \in {<<r, q>> : r \in P, q \in P} : VLess(t[1], t[2])}
Neutrals(d) == {Vec(d, 1), [i \in 1..d |-> IF i = 1 THEN 3 ELSE 2]}
Ws == {<<1, 1>>, <<2, 1>>}

Init == pc = "init" /\ key = "" /\ out = <<>>
Level1 == pc = "init" /\ \E f \in Families : key' = f /\ pc' = "fam" /\ out' = out
Level2 == /\ pc = "fam"
          /\ \E s \in SystemsOf(key) : \E nu0 \in Neutrals(Len(s.A)), w \in Ws : out' = [fam |-> key, sys |-> s, nu0 |-> nu0, w |-> w]
          /\ pc' = "sys" /\ key' = key
Level3 == /\ pc = "sys"
          /\ LET s == out.sys
                 TS == IF Tier = "quick" THEN {t \in TargetSets(s) : Len(t) = 1 \/ t[1][1] = SetMin({r[1] : r \in RowPool(s)})} ELSE TargetSets(s)
             IN out' = [fam |-> out.fam, sys |-> s, nu0 |-> out.nu0, w |-> out.w,
                        recs |-> {AdaptiveRecord(s, Bs, out.nu0, out.w) : Bs \in TS}]
          /\ pc' = "done" /\ key' = key
Next == Level1 \/ Level2 \/ Level3
Spec == Init /\ [][Next]_vars
OptimaAreOptimal == pc = "done" => \A r \in out.recs : r.ok
StripsAreHomogeneous == pc = "done" => \A r \in out.recs : r.homog
=============================================================================
