------------------------------- MODULE MC_C02 -------------------------------
(* C02: a registered system is the exact linear model.                        *)
(* case = filters x sources x domain x adaptation x baseline x intensities;   *)
(* expected: capture matrix, capture of intensities == capture of the mixed   *)
(* spectrum, relative capture K(Q+bl), and relative capture 1 after adapting  *)
(* to a background (spectrum or intensity vector).                            *)
EXTENDS Capture, Systems

CONSTANTS Tier
VARIABLES pc, key, out
vars == <<pc, key, out>>

DX == 2
Doms(nd) == IF nd = 3 THEN {<<>>, <<0, 1, 4>>, <<2, 3, 5>>} ELSE {<<>>, <<0, 2, 3, 7>>}
Steps == {<<1, 1>>, <<1, 2>>}
FVals == {0, 2}
FPoolAll(d, nd) == {F \in [1..d -> [1..nd -> FVals]] : \A i \in 1..d : \E k \in 1..nd : F[i][k] # 0}
FPoolPicked(d, nd) == { [i \in 1..d |-> [m \in 1..nd |-> IF m = i THEN 2 ELSE IF m = i + 1 THEN 1 ELSE 0]],
                        [i \in 1..d |-> [m \in 1..nd |-> ((i * m) % 3)]],
                        [i \in 1..d |-> [m \in 1..nd |-> IF (i + m) % 2 = 0 THEN 2 ELSE 1]] }
FPool(d, nd) == IF Tier = "quick" \/ d * nd > 6 THEN FPoolPicked(d, nd) ELSE FPoolAll(d, nd)   \* exhaustive only for 2 x 3 filters
SPool(n, nd) == { [k \in 1..n |-> [m \in 1..nd |-> ((k + m) % 3) + (IF m = k THEN 2 ELSE 0)]],
                  [k \in 1..n |-> [m \in 1..nd |-> IF (m + k) % 2 = 0 THEN 3 ELSE 1]] }
XPool(n) == { [j \in 1..n |-> j], [j \in 1..n |-> IF j = 1 THEN 0 ELSE 3], [j \in 1..n |-> 2] }   \* units 1/2

(* rational helpers *)
RelCap(Kr, q, bl) == [i \in 1..Len(Kr) |-> RDot(Kr[i], [j \in 1..Len(q) |-> RAdd(q[j], bl[j])])]
AbsCap(F, sig, dom, p) == [i \in 1..Len(F) |-> ValOf(Prod(F[i], sig), dom, p, TRUE)]
Mix(S, x) == [m \in 1..Len(S[1]) |-> SumTo([k \in 1..Len(S) |-> x[k] * S[k][m]], Len(S))]

Shapes == IF Tier = "quick" THEN {<<2, 3, 2>>, <<2, 3, 3>>, <<3, 3, 2>>, <<2, 4, 1>>}
          ELSE {<<2, 3, 1>>, <<2, 3, 2>>, <<2, 3, 3>>, <<3, 3, 2>>, <<3, 3, 4>>, <<2, 4, 3>>, <<3, 4, 2>>}

Init == pc = "init" /\ key = <<>> /\ out = <<>>
Level1 == /\ pc = "init"
          /\ \E sh \in Shapes : \E dv \in {<<dom, <<1, 1>>>> : dom \in Doms(sh[2]) \ {<<>>}} \cup {<<<<>>, st>> : st \in Steps},
                                  kv \in KVariants(sh[1]), bv \in BVariants(sh[1]) :
               key' = [d |-> sh[1], nd |-> sh[2], n |-> sh[3], dom |-> dv[1], p |-> dv[2][1], q |-> dv[2][2], kv |-> kv, bv |-> bv]
          /\ pc' = "key" /\ out' = out
Level2 ==
  /\ pc = "key"
  /\ \E F \in FPool(key.d, key.nd), S \in SPool(key.n, key.nd) :
       LET scale == ScaleOf(key.dom, DX, key.q, TRUE)          \* captures below are scale * true value
           A == [i \in 1..key.d |-> [k \in 1..key.n |-> ValOf(Prod(F[i], S[k]), key.dom, key.p, TRUE)]]
           Kr == [i \in 1..key.d |-> [j \in 1..key.d |-> R(key.kv[2][i][j], key.kv[3])]]
           bl == [i \in 1..key.d |-> R(key.bv[2][i], 4)]
           xs == XPool(key.n)
           rec(x) ==
             LET q2 == MatVec(A, x)                                  \* scale*2 * capture of x/2
                 qr == [i \in 1..key.d |-> R(q2[i], 2 * scale)]
                 mix == Mix(S, x)                                    \* 2 * mixed spectrum
                 qmix == [i \in 1..key.d |-> R(ValOf(Prod(F[i], mix), key.dom, key.p, TRUE), 2 * scale)]
                 pos == \A i \in 1..key.d : RAdd(qr[i], bl[i])[1] > 0
                 Kad == [i \in 1..key.d |-> [j \in 1..key.d |-> IF i = j /\ pos THEN RDiv(<<1, 1>>, RAdd(qr[i], bl[i])) ELSE <<0, 1>>]]
             IN [x |-> x, q |-> qr, qmix |-> qmix, rel |-> RelCap(Kr, qr, bl),
                 adaptable |-> pos,
                 rel_after_adapt |-> IF pos THEN RelCap(Kad, qr, bl) ELSE <<>>]
       IN out' = [F |-> F, S |-> S, dom |-> key.dom, DX |-> DX, p |-> key.p, q |-> key.q,
                  kk |-> key.kv[1], Kn |-> key.kv[2], DK |-> key.kv[3], bk |-> key.bv[1], bl |-> key.bv[2],
                  scale |-> scale, A |-> A, recs |-> {rec(x) : x \in xs}]
  /\ pc' = "done" /\ key' = key
Next == Level1 \/ Level2
Spec == Init /\ [][Next]_vars

(* the capture predicted from intensities is the capture of the physically mixed spectrum *)
MixtureIdentity == pc = "done" => \A r \in out.recs : r.q = r.qmix
(* after adapting to a background its relative capture is exactly one for every receptor  *)
AdaptedIsOne == pc = "done" => \A r \in out.recs : r.adaptable => r.rel_after_adapt = Vec(Len(out.F), <<1, 1>>)
=============================================================================
