SPECIFICATION Spec
CONSTANTS Tier = "thorough"
INVARIANT CertificatesConsistent
INVARIANT NonVacuous
INVARIANT BackCertified
CHECK_DEADLOCK FALSE
