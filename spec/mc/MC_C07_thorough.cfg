SPECIFICATION Spec
CONSTANTS Tier = "thorough"
INVARIANT CertificatesConsistent
INVARIANT NonVacuous
CHECK_DEADLOCK FALSE
