SPECIFICATION Spec
CONSTANTS
  NDs = {2, 3}
  ArrDoms <- ArrDomsQuick
  Steps <- StepsQuick
  BatchToo = TRUE
INVARIANT PairwiseOnly
INVARIANT DxEquivalent
INVARIANT DefinitionAgrees
CHECK_DEADLOCK FALSE
