SPECIFICATION CodeSpec
CONSTANTS MaxN = 4
          Deviations = TRUE
INVARIANT NoFailure
CHECK_DEADLOCK FALSE
