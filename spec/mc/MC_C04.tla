------------------------------- MODULE MC_C04 -------------------------------
(* C04: one state per (system, receptor weights); carries every target with   *)
(* the exact bounded weighted least-squares optimum.                          *)
EXTENDS LsqLinear

CONSTANTS Tier
VARIABLES pc, key, out
vars == <<pc, key, out>>

G == IF Tier = "quick" THEN 3 ELSE 5
Span == 8

Families ==
  {"mat22", "mat23", "bounds", "kb", "unb", "over", "one"} \cup
  (IF Tier = "quick" THEN {} ELSE {"mat33", "kb3", "mat24"})

DefaultB(A) == Plain(A, 4, Vec(Len(A[1]), 0), Vec(Len(A[1]), INF))
SystemsOf(f) ==
  CASE f = "mat22" -> SysMatrix(2, 2, IF Tier = "quick" THEN 0..2 ELSE 0..3)
    [] f = "mat23" -> SysMatrix(2, 3, IF Tier = "quick" THEN 0..1 ELSE 0..2)
    [] f = "mat24" -> {Plain(A24, 4, Vec(4, 0), Vec(4, 4))} \cup SysBoundsOf(A24)
    [] f = "mat33" -> SysMatrix(3, 3, 0..1) \cup SysBoundsOf(A33) \cup SysBoundsOf(A34)
    [] f = "bounds" -> UNION {SysBoundsOf(A) : A \in {A22, A23, A23b}}
    [] f = "kb" -> SysKBOf(A23, Vec(3, 0), Vec(3, 4), KVariants(2))
                   \cup (IF Tier = "quick" THEN {} ELSE SysKBOf(A22, Vec(2, 2), Vec(2, 8), KVariants(2)) \cup SysKBOf(A22, Vec(2, 0), Vec(2, 4), KVariants(2)))
    [] f = "kb3" -> SysKBOf(A33, Vec(3, 0), Vec(3, 4), {k \in KVariants(3) : k[3] = 1})   \* magnitude guard (32-bit Gram determinants)
    [] f = "unb" -> {DefaultB(A) : A \in {A22, A23, A33, A32, A21, A12}} \cup UNION {SysUnbOf(A) : A \in {A22, A23}}
                    \cup SysKBOf(A22, Vec(2, 0), Vec(2, INF), KVariants(2))
    [] f = "over" -> UNION {SysBoundsOf(A) : A \in {A32, A21, A31}} \cup {Plain(<<<<1>>, <<3>>>>, 4, <<0>>, <<40>>), Plain(<<<<2>>, <<1>>>>, 4, <<1>>, <<40>>)}     \* wide bounds (ub = 10)
    [] f = "one" -> UNION {SysBoundsOf(A) : A \in {A11, A12, A13}}

Weights(d) == IF d = 1 THEN {<<1>>, <<2>>}
              ELSE {Vec(d, 1), [i \in 1..d |-> IF i = 1 THEN 2 ELSE 1], [i \in 1..d |-> IF i = d THEN 2 ELSE 1]}

Init == pc = "init" /\ key = "" /\ out = <<>>
Level1 == pc = "init" /\ \E f \in Families : key' = f /\ pc' = "fam" /\ out' = out
Level2 == /\ pc = "fam"
          /\ \E s \in SystemsOf(key) : \E w \in (IF key = "kb3" THEN {Vec(Len(s.A), 1)}
                                                  ELSE Weights(Len(s.A)) \cup (IF Len(s.A) <= 2 /\ s.DK = 1 /\ key \in {"mat22", "bounds", "one"} THEN {Vec(Len(s.A), 0)} ELSE {})) :    \* kb3: unit weights only (32-bit guard)
               out' = [fam |-> key, sys |-> s, w |-> w]
          /\ pc' = "sys" /\ key' = key
(* W = "inverse" (weights 1/b per sample and receptor): marker w = <<0,..>>; only targets whose entries are in  *)
(* {1,2,4,8} lattice units, so that 8/b is an integer weight proportional to 1/b; 1-2 receptors (magnitude).     *)
(* targets whose residual in one receptor exceeds 25 capture units while another receptor can still be served (the *)
(* regime allows targets up to 100): over-determined systems only, where the receptors compete for the sources       *)
VeryFar(s, fam) ==
  IF fam # "over" \/ Len(s.A) # 2 \/ s.DK # 1 THEN {}
  ELSE {<<80 * s.D, 3 * s.D>>, <<3 * s.D, 90 * s.D>>, <<60 * s.D, 40 * s.D>>}
InvTargets(s) == {b \in Targets(s, 8, Span) : \A i \in 1..Len(b) : b[i] \in {1, 2, 4, 8}}
InvW(b) == [i \in 1..Len(b) |-> 8 \div b[i]]
Level3 == /\ pc = "sys"
          /\ out' = [fam |-> out.fam, sys |-> out.sys, w |-> out.w,
                     fits |-> IF out.w = Vec(Len(out.sys.A), 0)
                              THEN {FitRecord(out.sys, InvW(b), b, Span) : b \in InvTargets(out.sys)}
                              ELSE {FitRecord(out.sys, out.w, b, Span) : b \in Targets(out.sys, G, Span) \cup VeryFar(out.sys, out.fam)}]
          /\ pc' = "done" /\ key' = key
Next == Level1 \/ Level2 \/ Level3
Spec == Init /\ [][Next]_vars

OracleIsOptimal == pc = "done" => \A f \in out.fits : f.optimal
ZeroErrorIffInGamut == pc = "done" => \A f \in out.fits : f.zeroiff
(* non-vacuity: in every state some target is fitted exactly and some is not     *)
BothKinds == (pc = "done" /\ out.w # Vec(Len(out.sys.A), 0)) => (\E f \in out.fits : f.zero) /\ (\E f \in out.fits : ~f.zero)
=============================================================================
