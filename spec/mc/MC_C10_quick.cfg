SPECIFICATION Spec
CONSTANTS Tier = "quick"
INVARIANT OptimaAreOptimal
INVARIANT StripsAreHomogeneous
CHECK_DEADLOCK FALSE
