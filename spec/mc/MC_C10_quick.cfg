SPECIFICATION Spec
CONSTANTS Tier = "quick"
INVARIANT OptimaAreOptimal
CHECK_DEADLOCK FALSE
