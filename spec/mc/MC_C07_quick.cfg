SPECIFICATION Spec
CONSTANTS Tier = "quick"
INVARIANT CertificatesConsistent
INVARIANT NonVacuous
INVARIANT BackCertified
CHECK_DEADLOCK FALSE
