SPECIFICATION Spec
CONSTANTS Tier = "quick"
INVARIANT CertificatesConsistent
INVARIANT NonVacuous
CHECK_DEADLOCK FALSE
