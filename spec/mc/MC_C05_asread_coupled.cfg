SPECIFICATION CodeSpec
CONSTANTS MaxN = 4
          Deviations = TRUE
INVARIANT BatchInvariant
CHECK_DEADLOCK FALSE
