------------------------------- MODULE MC_C19 -------------------------------
EXTENDS Domain

CONSTANTS Tier
VARIABLES pc, key, out
vars == <<pc, key, out>>

DX == 2
MaxX == IF Tier = "quick" THEN 6 ELSE 8
Sizes == IF Tier = "quick" THEN {2, 3} ELSE {2, 3, 4}
Asc(n) == {s \in [1..n -> 0..MaxX] : \A k \in 1..(n - 1) : s[k] < s[k + 1]}
DomPool == UNION {Asc(n) : n \in Sizes}
Rev(d) == [k \in 1..Len(d) |-> d[Len(d) + 1 - k]]
(* neither ascending nor descending: first and last element are not the extremes (needs >= 3 points) *)
Shuf(d) == IF Len(d) < 3 THEN Rev(d) ELSE [k \in 1..Len(d) |-> IF k = 1 THEN d[2] ELSE IF k = 2 THEN d[Len(d)] ELSE IF k = Len(d) THEN d[1] ELSE d[k]]
(* deterministic sample arrays *)
Y1(d) == [k \in 1..Len(d) |-> ((3 * d[k] + k) % 5) - 1]
Y2(d) == [k \in 1..Len(d) |-> 2 * d[k] - 3]            \* affine: interpolation must be exact
Third == <<1, 3, 4, 6>>

Init == pc = "init" /\ key = <<>> /\ out = <<>>
Level1 == pc = "init" /\ \E d1 \in DomPool : key' = d1 /\ pc' = "key" /\ out' = out
Case(ds) ==
  LET st == Status(ds)
      ys == [k \in 1..Len(ds) |-> IF k = 2 THEN Y2(ds[k]) ELSE Y1(ds[k])]
      ms == IF st = "interp" THEN Counts(ds) ELSE {}
  IN [ds |-> ds, ys |-> ys, DX |-> DX, status |-> st,
      lo |-> Overlap(ds).lo, hi |-> Overlap(ds).hi,
      cands |-> {[m |-> m, grid |-> Grid(ds, m), arrs |-> InterpAll(ds, ys, m),
                  cap12 |-> CaptureOnGrid(ds, InterpAll(ds, ys, m)[1], InterpAll(ds, ys, m)[2], m, DX)] : m \in ms}]
Level2 == /\ pc = "key"
          /\ \E d2 \in DomPool, variant \in {"asc", "rev", "shuf", "shuf1", "three"} :
               (variant = "three" => Tier # "quick" \/ Len(d2) = 2) /\
               out' = Case(IF variant = "asc" THEN <<key, d2>>
                           ELSE IF variant = "rev" THEN <<key, Rev(d2)>>
                           ELSE IF variant = "shuf" THEN <<key, Shuf(d2)>>
                           ELSE IF variant = "shuf1" THEN <<Shuf(key), d2>>
                           ELSE <<key, d2, Third>>)
          /\ pc' = "done" /\ key' = key
Next == Level1 \/ Level2
Spec == Init /\ [][Next]_vars

(* the grid starts and ends exactly at the overlap and is uniform                  *)
GridExact == pc = "done" => \A c \in out.cands :
   /\ c.grid[1] = RInt(out.lo) /\ c.grid[Len(c.grid)] = RInt(out.hi)
   /\ \A i \in 1..(Len(c.grid) - 2) : RSub(c.grid[i + 1], c.grid[i]) = RSub(c.grid[i + 2], c.grid[i + 1])
(* an affine function of the domain is reproduced exactly by interpolation         *)
AffineExact == pc = "done" => \A c \in out.cands :
   \A i \in 1..Len(c.grid) : c.arrs[2][i] = RSub(RMul(RInt(2), c.grid[i]), RInt(3))
(* equalising the equalised arrays again changes nothing (idempotence): the         *)
(* interpolated arrays live on one common uniform domain                             *)
Idempotent == pc = "done" => \A c \in out.cands : Len(c.arrs[1]) = Len(c.grid) /\ Len(c.arrs[2]) = Len(c.grid)
=============================================================================
