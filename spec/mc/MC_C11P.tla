------------------------------ MODULE MC_C11P ------------------------------
(* Pinned-factor configurations of the layer decomposition, where the          *)
(* bilinear problem is convex and has an exact optimum:                         *)
(*  (a) one layer, opacities pinned (lbp = ubp = 1): every sample is predicted   *)
(*      by the same intensities, so the optimum is the bounded least-squares     *)
(*      fit of the MEAN target (C04 oracle);                                      *)
(*  (b) intensities pinned (lb = ub = x): per sample the opacity is the clamped   *)
(*      1-D least-squares coefficient  p = clamp(<v, t> / <v, v>), v = M x.        *)
EXTENDS LsqLinear
CONSTANTS Tier
VARIABLES pc, key, out
vars == <<pc, key, out>>

Systems == {Plain(A22, 4, Vec(2, 0), Vec(2, 4)), Plain(A23, 4, Vec(3, 0), Vec(3, 4)), Plain(A33, 4, Vec(3, 0), Vec(3, 4)),
            Sys(A23, 4, Vec(3, 0), Vec(3, 4), "vector", Diag(<<1, 2>>), 1, "vector", <<1, 2>>)}
Rows(s) == {b \in Targets(s, 2, 8) : \A i \in 1..Len(b) : b[i] >= 0 /\ b[i] % 2 = 0}
Pairs(s) == {pr \in Rows(s) \X Rows(s) : VLess(pr[1], pr[2]) /\ \A i \in 1..Len(pr[1]) : (pr[1][i] + pr[2][i]) % 2 = 0}
XPin(s) == [j \in 1..Len(s.lb) |-> IF j % 2 = 1 THEN 2 ELSE 3]      \* units 1/D

Clamp(r, lo, hi) == IF RLt(r, lo) THEN lo ELSE IF RLt(hi, r) THEN hi ELSE r
POpt(s, b, x) == LET v == MatVec(NormM(s), x)
                     t == TargetR(s, b)
                 IN IF Dot(v, v) = 0 THEN <<0, 1>> ELSE Clamp(R(Dot(v, t), Dot(v, v)), <<0, 1>>, <<1, 1>>)

Init == pc = "init" /\ key = <<>> /\ out = <<>>
Level1 == /\ pc = "init"
          /\ \E s \in Systems : \E b1 \in Rows(s) : key' = <<s, b1>>
          /\ pc' = "key" /\ out' = out
Level2 == /\ pc = "key"
          /\ LET s == key[1]
                 b1 == key[2]
             IN \E b2 \in {b \in Rows(s) : VLess(b1, b)} :
                  LET mean == [i \in 1..Len(b1) |-> (b1[i] + b2[i]) \div 2]
                      c == FitGaussian(s, Vec(Len(s.A), 1), mean)
                  IN out' = [sys |-> s, b1 |-> b1, b2 |-> b2, q |-> c.q, den |-> c.den,
                             xpin |-> XPin(s), p1 |-> POpt(s, b1, XPin(s)), p2 |-> POpt(s, b2, XPin(s))]
          /\ pc' = "done" /\ key' = key
Next == Level1 \/ Level2
Spec == Init /\ [][Next]_vars
=============================================================================
