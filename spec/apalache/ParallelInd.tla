---------------------------- MODULE ParallelInd ----------------------------
(* Inductive invariant of the implementation's batch schedule for ALL        *)
(* N >= 1 and ALL batch sizes bs >= 1 (unbounded integers; Apalache).         *)
(* Abstraction of Parallel.tla!CodeNext: rows are scattered in contiguous     *)
(* blocks, so the state is (idx, lo) with rows [0, lo) written exactly once,  *)
(* `overlap` counting rows written twice and `beyond` rows written past N.    *)
EXTENDS Integers, Apalache

VARIABLES
  \* @type: Int;
  N,
  \* @type: Int;
  bs,
  \* @type: Int;
  idx,
  \* @type: Int;
  lo,
  \* @type: Int;
  overlap,
  \* @type: Int;
  beyond,
  \* @type: Str;
  pc

Min(a, b) == IF a < b THEN a ELSE b

Init == /\ N = Gen(1) /\ bs = Gen(1) /\ N >= 1 /\ bs >= 1
        /\ idx = 0 /\ lo = 0 /\ overlap = 0 /\ beyond = 0 /\ pc = "run"

(* scatter X[idx*bs : (idx+1)*bs] = x                                          *)
FullBatch == /\ pc = "run" /\ (idx + 1) * bs <= N
             /\ overlap' = overlap + (IF idx * bs < lo THEN lo - idx * bs ELSE 0)
             /\ beyond' = beyond
             /\ lo' = (idx + 1) * bs
             /\ idx' = idx + 1
             /\ UNCHANGED <<N, bs, pc>>
(* scatter X[idx*bs:] = x[:N % bs]  (zero-padded rows are dropped)              *)
LastBatch == /\ pc = "run" /\ (idx + 1) * bs > N /\ idx * bs < N
             /\ overlap' = overlap + (IF idx * bs < lo THEN lo - idx * bs ELSE 0)
             /\ beyond' = beyond + (IF idx * bs + (N - idx * bs) > N THEN 1 ELSE 0)
             /\ lo' = N
             /\ idx' = idx + 1
             /\ UNCHANGED <<N, bs, pc>>
Finish == /\ pc = "run" /\ idx * bs >= N /\ pc' = "done"
          /\ UNCHANGED <<N, bs, idx, lo, overlap, beyond>>
Next == FullBatch \/ LastBatch \/ Finish

(* inductive invariant *)
IndInv == /\ N >= 1 /\ bs >= 1 /\ idx >= 0
          /\ pc \in {"run", "done"}
          /\ lo = Min(idx * bs, N)
          /\ overlap = 0 /\ beyond = 0
          /\ (pc = "done" => lo = N)
(* used as the initial predicate of the induction step                          *)
IndInit == /\ N = Gen(1) /\ bs = Gen(1) /\ idx = Gen(1) /\ lo = Gen(1) /\ overlap = Gen(1) /\ beyond = Gen(1)
           /\ pc \in {"run", "done"}
           /\ IndInv
(* the property: when the call returns every row has been written exactly once  *)
Safe == (pc = "done" => lo = N) /\ overlap = 0 /\ beyond = 0
=============================================================================
