----------------------------- MODULE Trace_C01 -----------------------------
(* code -> spec: every recorded call of calculate_capture / integral /      *)
(* ReceptorEstimator.capture must be a behaviour of Capture.tla: the logged *)
(* result (multiplied by the logged scale, an exact integer on the lattice) *)
(* must equal the specification's value.  Verdicts are total: a mismatch    *)
(* never disables the action; it is printed and counted.                    *)
EXTENDS Capture, Json, IOUtils

Trace == ndJsonDeserialize(IOEnv.TRACE_FILE)

VARIABLES l, nbad
vars == <<l, nbad>>

Verdict(e) ==
  IF e.exc # "" THEN "C01.no-error"
  ELSE IF e.op = "integral" THEN
     (IF e.scale # ScaleOf(e.dom, e.DX, e.q, TRUE) THEN "C01.scale"
      ELSE IF e.res # IntegralRows(e.sc, e.S, e.dom, e.p) THEN "C01.integral-value" ELSE "ok")
  ELSE
     (IF e.scale # ScaleOf(e.dom, e.DX, e.q, e.trapz) THEN "C01.scale"
      ELSE IF e.res # CaptureOf(e.sc, e.F, e.S, e.dom, e.p, e.trapz) THEN "C01.value" ELSE "ok")

Init == l = 1 /\ nbad = 0
Next == /\ l <= Len(Trace)
        /\ LET e == Trace[l]
               v == Verdict(e)
           IN /\ (v # "ok" => PrintT(<<"BAD", e.i, v>>))
              /\ TLCSet(1, l)
              /\ nbad' = nbad + (IF v = "ok" THEN 0 ELSE 1)
        /\ l' = l + 1
Spec == Init /\ [][Next]_vars
AllConsumed == TLCGet(1) = Len(Trace)
=============================================================================
