----------------------------- MODULE Trace_C11 -----------------------------
(* code -> spec: the hook events of one decomposition call must be a behaviour *)
(* of Decomp.tla, with the logged losses (fixed point) non-increasing up to the *)
(* solver tolerance and every stop reason consistent with the logged numbers.   *)
(* Events: Call(max_iter, subsample, ftol/xtol as scaled integers), XStep(n),   *)
(* Eval(n, loss, prev, dvars, nvars), Stop(n, reason), FinalX, FinalP, Return.  *)
EXTENDS Integers, Sequences, TLC, Json, IOUtils

Events == ndJsonDeserialize(IOEnv.TRACE_FILE)
VARIABLES l, phase, iter, loss, maxit, sub, hooked, nbad
vars == <<l, phase, iter, loss, maxit, sub, hooked, nbad>>
Bad(e, clause) == PrintT(<<"BAD", e.i, clause>>)

Init == l = 1 /\ phase = "idle" /\ iter = 0 /\ loss = -1 /\ maxit = 0 /\ sub = FALSE /\ hooked = FALSE /\ nbad = 0

(* each step: [ok, clause, new phase, new iter, new loss] *)
Step(e) ==
  CASE e.ev = "Call" -> [ok |-> TRUE, clause |-> "", ph |-> "init", it |-> 0, ls |-> -1]
    [] e.ev = "XStep" ->
         LET ok == phase \in {"init", "continue"} /\ e.n = iter /\ iter < maxit
         IN [ok |-> ok, clause |-> "C11.event-order", ph |-> "x", it |-> iter, ls |-> loss]
    [] e.ev = "Eval" ->
         LET okorder == phase = "x" /\ e.n = iter
             okdesc == loss < 0 \/ e.loss <= loss + e.tol
         IN [ok |-> okorder /\ okdesc, clause |-> IF ~okorder THEN "C11.event-order" ELSE "C11.descent",
             ph |-> "eval", it |-> iter + 1, ls |-> e.loss]
    [] e.ev = "Stop" ->
         LET okorder == (e.reason = "max_iter" /\ phase = "eval" /\ iter = maxit /\ e.n = maxit)
                        \/ (e.reason \in {"ftol", "xtol"} /\ phase = "eval" /\ e.n = iter - 1 /\ e.n >= 1)
             okreason == e.consistent
         IN [ok |-> okorder /\ okreason, clause |-> IF ~okorder THEN "C11.event-order" ELSE "C11.stop-reason",
             ph |-> "stopped", it |-> iter, ls |-> loss]
    [] e.ev = "Continue" ->      \* synthesised by the driver between an Eval and the next XStep
         [ok |-> phase = "eval" /\ iter < maxit, clause |-> "C11.event-order", ph |-> "continue", it |-> iter, ls |-> loss]
    [] e.ev = "FinalX" -> [ok |-> phase = "stopped", clause |-> "C11.event-order", ph |-> "finalx", it |-> iter, ls |-> loss]
    [] e.ev = "FinalP" -> [ok |-> phase = "finalx" /\ sub, clause |-> "C11.event-order", ph |-> "finalp", it |-> iter, ls |-> loss]
    [] e.ev = "Return" ->
         [ok |-> (~hooked) \/ phase = "finalp" \/ (phase = "finalx" /\ ~sub), clause |-> "C11.event-order", ph |-> "idle", it |-> 0, ls |-> -1]
    [] OTHER -> [ok |-> FALSE, clause |-> "C11.unknown-event", ph |-> phase, it |-> iter, ls |-> loss]

Next == /\ l <= Len(Events)
        /\ LET e == Events[l]
               r == Step(e)
           IN /\ (~r.ok => Bad(e, r.clause))
              /\ phase' = r.ph /\ iter' = r.it /\ loss' = r.ls
              /\ maxit' = IF e.ev = "Call" THEN e.max_iter ELSE maxit
              /\ sub' = IF e.ev = "Call" THEN e.subsample ELSE sub
              /\ hooked' = IF e.ev = "Call" THEN e.hooked ELSE hooked
              /\ nbad' = nbad + (IF r.ok THEN 0 ELSE 1)
              /\ TLCSet(1, l)
        /\ l' = l + 1
Spec == Init /\ [][Next]_vars
AllConsumed == TLCGet(1) = Len(Events)
=============================================================================
