----------------------------- MODULE Trace_C05 -----------------------------
(* code -> spec for C05.  A recorded fitting call is                         *)
(*    Call, { Pass, Solve... }..., ( Return, Row... | Raise )                *)
(* and must be a behaviour of Parallel.tla's generic machine: the Solve      *)
(* events scatter pairwise disjoint, in-range row blocks of at most bs rows, *)
(* all rows are written when the call returns, and the call never fails.     *)
(* Row events carry a content id and a fixed-point fingerprint of the result *)
(* row: the unlogged per-row solve function F is inferred (first occurrence) *)
(* and every later occurrence -- other batch size, permuted / duplicated /   *)
(* dropped / appended neighbours -- must agree with it.                      *)
EXTENDS Integers, Sequences, FiniteSets, TLC, Json, IOUtils

Events == ndJsonDeserialize(IOEnv.TRACE_FILE)
NRid == Events[1].nrid          \* first line: header [ev |-> "Header", nrid, tol]
Tol == Events[1].tol

VARIABLES l, N, bs, hooked, written, memo, nbad
vars == <<l, N, bs, hooked, written, memo, nbad>>

Abs(x) == IF x < 0 THEN -x ELSE x
Bad(e, clause) == PrintT(<<"BAD", e.i, clause>>)

Init == /\ l = 2 /\ N = 0 /\ bs = 0 /\ hooked = FALSE
        /\ written = <<>> /\ memo = [r \in 1..NRid |-> <<>>] /\ nbad = 0

Step(e) ==
  CASE e.ev = "Call" ->
         /\ N' = e.N /\ bs' = (IF e.req = 0 THEN e.N ELSE e.req) /\ hooked' = e.hooked
         /\ written' = [r \in 1..e.N |-> 0]
         /\ UNCHANGED <<memo, nbad>>
    [] e.ev = "Pass" ->      \* a new scatter pass over the same rows (e.g. stage 1 / stage 2 of minimize)
         LET ok == (~hooked) \/ (\A r \in 1..N : written[r] = 0) \/ (\A r \in 1..N : written[r] = 1)
         IN /\ (~ok => Bad(e, "C05.partition"))
            /\ written' = [r \in 1..N |-> 0]
            /\ nbad' = nbad + (IF ok THEN 0 ELSE 1)
            /\ UNCHANGED <<N, bs, hooked, memo>>
    [] e.ev = "Solve" ->
         LET rows == (e.first_row + 1)..(e.first_row + e.n_written)
             ok == /\ e.n_written >= 1 /\ e.n_written <= bs /\ e.n_solved >= e.n_written
                   /\ e.first_row >= 0 /\ e.first_row + e.n_written <= N
                   /\ \A r \in rows : written[r] = 0
         IN /\ (~ok => Bad(e, "C05.partition"))
            /\ written' = [r \in 1..N |-> IF r \in rows THEN written[r] + 1 ELSE written[r]]
            /\ nbad' = nbad + (IF ok THEN 0 ELSE 1)
            /\ UNCHANGED <<N, bs, hooked, memo>>
    [] e.ev = "Return" ->
         LET ok == (~hooked) \/ \A r \in 1..N : written[r] = 1
         IN /\ (~ok => Bad(e, "C05.partition"))
            /\ nbad' = nbad + (IF ok THEN 0 ELSE 1)
            /\ UNCHANGED <<N, bs, hooked, written, memo>>
    [] e.ev = "Raise" ->
         /\ Bad(e, "C05.no-failure")
         /\ nbad' = nbad + 1
         /\ UNCHANGED <<N, bs, hooked, written, memo>>
    [] e.ev = "Row" ->
         LET old == memo[e.rid]
             ok == old = <<>> \/ (Len(old) = Len(e.fp) /\ \A k \in 1..Len(old) : Abs(old[k] - e.fp[k]) <= Tol)
         IN /\ (~ok => Bad(e, e.clause))
            /\ memo' = IF old = <<>> THEN [memo EXCEPT ![e.rid] = e.fp] ELSE memo
            /\ nbad' = nbad + (IF ok THEN 0 ELSE 1)
            /\ UNCHANGED <<N, bs, hooked, written>>

Next == /\ l <= Len(Events)
        /\ Step(Events[l])
        /\ TLCSet(1, l)
        /\ l' = l + 1
Spec == Init /\ [][Next]_vars
AllConsumed == TLCGet(1) = Len(Events)
=============================================================================
