----------------------------- MODULE Trace_C18 -----------------------------
(* code -> spec for the metrics: each event is one step of Metrics.tla's       *)
(* cloud machine with the metric values (fixed point, scale S) measured by the *)
(* code before and after the step, or one divergence measurement.               *)
(*  step:  op, k (scale factor), dim (affine dimension of the cloud before the  *)
(*         step), samedim, vol0/vol1 (volume within the span), w0/w1 (seeded   *)
(*         width, same seed), g0/g1 (gamut metric relative to the base cloud)  *)
(*  jsd:   P, Q (non-negative integer vectors), v (JSD), vs (swapped), vn       *)
(*         (inputs rescaled by different factors)                               *)
EXTENDS Integers, Sequences, FiniteSets, TLC, Json, IOUtils

Events == ndJsonDeserialize(IOEnv.TRACE_FILE)
VARIABLES l, nbad
vars == <<l, nbad>>
Abs(x) == IF x < 0 THEN -x ELSE x
RECURSIVE Pow(_, _)
Pow(k, n) == IF n = 0 THEN 1 ELSE k * Pow(k, n - 1)
Close(a, b, rel, abs) == Abs(a - b) * 1000 <= rel * (Abs(a) + Abs(b)) + abs * 1000

StepVerdict(e) ==
  CASE e.op = "translate" ->
         IF ~Close(e.vol1, e.vol0, 0, 2) THEN "C18.volume-translation"
         ELSE IF ~Close(e.w1, e.w0, 0, 2) THEN "C18.width-translation" ELSE "ok"
    [] e.op = "signperm" ->
         IF ~Close(e.vol1, e.vol0, 0, 2) THEN "C18.volume-rotation"
         ELSE IF ~Close(e.w1, e.w0, 25, 2) THEN "C18.width-rotation" ELSE "ok"      \* Monte-Carlo: 2.5 %
    [] e.op = "scale" ->
         IF ~Close(e.vol1, Pow(e.k, e.dim) * e.vol0, 0, 2 * Pow(e.k, e.dim)) THEN "C18.volume-homogeneous"
         ELSE IF ~Close(e.w1, e.k * e.w0, 0, 2 * e.k) THEN "C18.width-homogeneous" ELSE "ok"
    [] e.op = "addpoint" ->
         IF e.samedim /\ e.vol1 < e.vol0 - 2 THEN "C18.volume-monotone"      \* a point that raises the affine dimension changes the unit of "volume"
         ELSE IF e.w1 < e.w0 - 2 THEN "C18.width-monotone" ELSE "ok"
    [] OTHER -> "C18.unknown-op"

Proportional(P, Q) == \A i \in 1..Len(P) : \A j \in 1..Len(P) : P[i] * Q[j] = P[j] * Q[i]
Disjoint(P, Q) == \A i \in 1..Len(P) : P[i] = 0 \/ Q[i] = 0
JsdVerdict(e) ==
  IF e.v < -1 \/ e.v > e.S + 1 THEN "C18.jsd-range"
  ELSE IF Abs(e.v - e.vs) > 1 THEN "C18.jsd-symmetric"
  ELSE IF Abs(e.v - e.vn) > 1 THEN "C18.jsd-normalisation"
  ELSE IF Proportional(e.P, e.Q) /\ e.v > 1 THEN "C18.jsd-zero-iff-proportional"
  ELSE IF ~Proportional(e.P, e.Q) /\ e.v <= 0 THEN "C18.jsd-zero-iff-proportional"
  ELSE IF Disjoint(e.P, e.Q) /\ e.v < e.S - 1 THEN "C18.jsd-range"
  ELSE "ok"

Verdict(e) == IF e.ev = "step" THEN StepVerdict(e) ELSE JsdVerdict(e)
Init == l = 1 /\ nbad = 0
Next == /\ l <= Len(Events)
        /\ LET e == Events[l]
               v == Verdict(e)
           IN /\ (v # "ok" => PrintT(<<"BAD", e.i, v>>))
              /\ TLCSet(1, l)
              /\ nbad' = nbad + (IF v = "ok" THEN 0 ELSE 1)
        /\ l' = l + 1
Spec == Init /\ [][Next]_vars
AllConsumed == TLCGet(1) = Len(Events)
=============================================================================
