----------------------------- MODULE Trace_C17 -----------------------------
(* code -> spec for the hull projections.  Events:                           *)
(*  "proj":  cloud P (integer points), query points bs, logged outputs xs     *)
(*           (fixed point, scale S): each x must be the nearest point of      *)
(*           conv(P) to b -- membership in every exact facet and the          *)
(*           variational inequality against every exact vertex; points inside *)
(*           are returned unchanged.                                          *)
(*  "slice": cloud P (non-negative integers), c, logged points rs (scale S):  *)
(*           every point on the plane sum = c, and the support function of    *)
(*           the returned points equals that of the exact slice in every       *)
(*           direction of a finite direction set.                              *)
EXTENDS Project, Json, IOUtils

Events == ndJsonDeserialize(IOEnv.TRACE_FILE)
VARIABLES l, nbad
vars == <<l, nbad>>

ToSet(seq) == {seq[k] : k \in 1..Len(seq)}
Dirs(d) == [1..d -> -2..2] \ {Vec(d, 0)}

ProjVerdict(e) ==
  LET P == ToSet(e.P)
      F == HullFacets(P)
      V == HullVerts(P)
  IN IF \E k \in 1..Len(e.bs) : ~NearestOK(F, V, e.bs[k], e.xs[k], e.S, e.tol) THEN "C17.nearest-point"
     ELSE IF \E k \in 1..Len(e.bs) : InHull(F, e.bs[k]) /\ \E i \in 1..Len(e.bs[k]) : Abs(e.xs[k][i] - e.S * e.bs[k][i]) > e.tol THEN "C17.inside-unchanged"
     ELSE "ok"

SliceVerdict(e) ==
  LET P == ToSet(e.P)
      I == SlicePts(P, e.c)
      d == Len(e.P[1])
      R0 == ToSet(e.rs)
      hR(u) == SetMax({Dot(u, r) : r \in R0})
  IN IF e.rs = <<>> THEN "C17.slice-empty"
     ELSE IF \E r \in R0 : Abs(Sum(r) - e.c * e.S) > e.tol * d THEN "C17.slice-on-plane"
     ELSE IF \E u \in Dirs(d) :
               LET hs == SliceSupport(I, u)      \* rational
               IN Abs(hR(u) * hs[2] - hs[1] * e.S) > e.tol * hs[2] * 2 * d
          THEN "C17.slice-equals-intersection"
     ELSE "ok"

Verdict(e) == IF e.ev = "proj" THEN ProjVerdict(e) ELSE SliceVerdict(e)

Init == l = 1 /\ nbad = 0
Next == /\ l <= Len(Events)
        /\ LET e == Events[l]
               v == Verdict(e)
           IN /\ (v # "ok" => PrintT(<<"BAD", e.i, v>>))
              /\ TLCSet(1, l)
              /\ nbad' = nbad + (IF v = "ok" THEN 0 ELSE 1)
        /\ l' = l + 1
Spec == Init /\ [][Next]_vars
AllConsumed == TLCGet(1) = Len(Events)
=============================================================================
