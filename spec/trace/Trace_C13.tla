----------------------------- MODULE Trace_C13 -----------------------------
EXTENDS Sampling, Json, IOUtils

Events == ndJsonDeserialize(IOEnv.TRACE_FILE)
NKeys == Events[1].nkeys
VARIABLES l, memo, nbad
vars == <<l, memo, nbad>>
ToSet(seq) == {seq[k] : k \in 1..Len(seq)}

(* a sample set: pts in fixed point (scale S); facets exact, recomputed from the cloud *)
SampleVerdict(e, mem) ==
  LET P == ToSet(e.P)
      F == HullFacets(P)
      d == Len(e.P[1])
      inside(x) == \A f \in F : Dot(f.nu, x) <= f.h * e.S + e.tol * SumTo([i \in 1..d |-> Abs(f.nu[i])], d)
  IN IF e.count # e.n THEN "C13.count"
     ELSE IF \E k \in 1..Len(e.pts) : ~inside(e.pts[k]) THEN "C13.in-gamut"
     ELSE IF mem # <<>> /\ mem # e.pts THEN "C13.same-seed-same-samples"
     ELSE "ok"

(* samples with a requested total: in the gamut (inside every exact facet of the full corner cloud G, which contains *)
(* the dark point) and on the plane sum = l1 (l1S = requested total in fixed point)                                  *)
L1Verdict(e, mem) ==
  LET F == HullFacets(ToSet(e.G))
      d == Len(e.G[1])
      inside(x) == \A f \in F : Dot(f.nu, x) <= f.h * e.S + e.tol * SumTo([i \in 1..d |-> Abs(f.nu[i])], d)
  IN IF e.count # e.n THEN "C13.count"
     ELSE IF \E k \in 1..Len(e.pts) : Abs(Sum(e.pts[k]) - e.l1S) > e.tol * d THEN "C13.l1-total"
     ELSE IF \E k \in 1..Len(e.pts) : ~inside(e.pts[k]) THEN "C13.in-gamut"
     ELSE IF mem # <<>> /\ mem # e.pts THEN "C13.same-seed-same-samples"
     ELSE "ok"

(* region counts of the default engine against exact area fractions *)
CountsVerdict(e) ==
  LET P == ToSet(e.P)
      Rs == FanRegions(P)
      A == PolyArea2(P)
  IN IF Cardinality(Rs) # Len(e.regions) THEN "C13.machinery-regions"
     ELSE IF \E k \in 1..Len(e.regions) :
               LET r == CHOOSE r \in Rs : r.tri = e.regions[k]
               IN ~CountOK(e.counts[k], e.n, r.area2, A)
          THEN "C13.uniform"
     ELSE IF SumTo(e.counts, Len(e.counts)) # e.n THEN "C13.in-gamut"
     ELSE "ok"

(* unbounded sources: the gamut is apex + cone(columns of M); samples with a requested total must lie in it      *)
(* (pts - apex in the cone, facet normals exact) and on the plane of that total                                    *)
L1ConeVerdict(e, mem) ==
  LET CF == ConeFacets(e.M)
      d == Len(e.M)
  IN IF e.count # e.n THEN "C13.count"
     ELSE IF \E k \in 1..Len(e.pts) : Abs(Sum(e.pts[k]) - e.l1S) > e.tol * d THEN "C13.l1-total"
     ELSE IF \E k \in 1..Len(e.pts) : \E nu \in CF :
               Dot(nu, [i \in 1..d |-> e.pts[k][i] - e.apexS[i]]) < -e.tol * SumTo([i \in 1..d |-> Abs(nu[i])], d)
          THEN "C13.in-gamut"
     ELSE IF mem # <<>> /\ mem # e.pts THEN "C13.same-seed-same-samples"
     ELSE "ok"

(* central symmetry: the gamut of a bounded system is a zonotope, symmetric about the capture of the mid-point   *)
(* intensities, so a uniform sample puts equally many points beyond  u.(x - c) > t  and beyond  u.(x - c) < -t   *)
(* for every direction u and offset t (counts recorded by the harness; 6 sigma of a fair split)                   *)
SymVerdict(e) ==
  IF \E k \in 1..Len(e.plus) : (e.plus[k] - e.minus[k]) * (e.plus[k] - e.minus[k]) > 36 * (e.plus[k] + e.minus[k]) + 36
  THEN "C13.uniform" ELSE "ok"

Init == l = 2 /\ memo = [k \in 1..NKeys |-> <<>>] /\ nbad = 0
Next == /\ l <= Len(Events)
        /\ LET e == Events[l]
               v == IF e.ev = "sample" THEN SampleVerdict(e, memo[e.key])
                    ELSE IF e.ev = "l1" THEN L1Verdict(e, memo[e.key])
                    ELSE IF e.ev = "l1cone" THEN L1ConeVerdict(e, memo[e.key])
                    ELSE IF e.ev = "sym" THEN SymVerdict(e)
                    ELSE CountsVerdict(e)
           IN /\ (v # "ok" => PrintT(<<"BAD", e.i, v>>))
              /\ TLCSet(1, l)
              /\ memo' = IF e.ev \in {"sample", "l1", "l1cone"} /\ memo[e.key] = <<>> THEN [memo EXCEPT ![e.key] = e.pts] ELSE memo
              /\ nbad' = nbad + (IF v = "ok" THEN 0 ELSE 1)
        /\ l' = l + 1
Spec == Init /\ [][Next]_vars
AllConsumed == TLCGet(1) = Len(Events)
=============================================================================
