----------------------------- MODULE Trace_Sys -----------------------------
(* code -> spec for the core system queries (C03, C04, C06): recorded calls on *)
(* randomly drawn lattice systems -- beyond the curated families of the        *)
(* exhaustive configurations -- are recomputed by TLC from the specification.  *)
(*  inhull : system, target b (units 1/(D*DK)), answer                          *)
(*  fit    : system, weights w, target b, returned prediction Bp and            *)
(*           intensities X in fixed point (scale S)                             *)
(*  range  : system, target b, returned Xmin / Xmax in fixed point              *)
EXTENDS LsqLinear, Json, IOUtils

Events == ndJsonDeserialize(IOEnv.TRACE_FILE)
VARIABLES l, nbad
vars == <<l, nbad>>

SysOf(e) == Sys(e.A, e.D, e.lb, e.ub, e.kk, e.Kn, e.DK, e.bk, e.bl)

InHullVerdict(e) ==
  LET s == SysOf(e)
      c == ClassOf(s, e.b)
  IN IF c = "interior" /\ ~e.ans THEN "interior-accepted"
     ELSE IF c = "exterior" /\ e.ans THEN "exterior-rejected" ELSE "ok"

(* |Bp - q*| <= tol in fixed point:  Bp_fp * den * U  vs  (q + den*blN) * S,  U = D*DK *)
FitVerdict(e) ==
  LET s == SysOf(e)
      c == FitGaussian(s, e.w, e.b)
      U == s.D * s.DK
      n == Len(e.X)
  IN IF \E j \in 1..n : e.X[j] * s.D < (s.lb[j] * e.S) - e.tolx * s.D \/ (s.ub[j] # INF /\ e.X[j] * s.D > (s.ub[j] * e.S) + e.tolx * s.D) THEN "bounds"
     ELSE IF \E i \in 1..Len(e.Bp) :
               LET r == R(c.q[i] + c.den * NormBl(s)[i], c.den)     \* exact optimal prediction, lowest terms, units 1/U
               IN r[2] <= 20000 /\ Abs(e.Bp[i] * r[2] * U - r[1] * e.S) > e.tol * r[2] * U   \* huge denominators are skipped (32-bit guard), never flagged
          THEN "optimal-pred"
     ELSE "ok"

RangeVerdict(e) ==
  LET s == SysOf(e)
      r == RangeOf(s, e.b)
      n == Len(e.Xmin)
  IN IF r.empty THEN "machinery-target-not-in-gamut"
     ELSE IF \E j \in 1..n : Abs(e.Xmin[j] * r.lo[j][2] * s.D - r.lo[j][1] * e.S) > e.tolx * r.lo[j][2] * s.D
                          \/ Abs(e.Xmax[j] * r.hi[j][2] * s.D - r.hi[j][1] * e.S) > e.tolx * r.hi[j][2] * s.D THEN "extent"
     ELSE "ok"

Verdict(e) == CASE e.ev = "inhull" -> InHullVerdict(e) [] e.ev = "fit" -> FitVerdict(e) [] e.ev = "range" -> RangeVerdict(e)

Init == l = 1 /\ nbad = 0
Next == /\ l <= Len(Events)
        /\ LET e == Events[l]
               v == Verdict(e)
           IN /\ (v # "ok" => PrintT(<<"BAD", e.i, v>>))
              /\ TLCSet(1, l)
              /\ nbad' = nbad + (IF v = "ok" THEN 0 ELSE 1)
        /\ l' = l + 1
Spec == Init /\ [][Next]_vars
AllConsumed == TLCGet(1) = Len(Events)
=============================================================================
