------------------------------ MODULE Helpers ------------------------------
(* Behaviour outside the listed properties that the listed ones build on:    *)
(* corner enumeration (all_combinations_of_bounds, get_P_from_A), in_system, *)
(* arange_with_interval, round_to_precision, d_equally_spaced.               *)
EXTENDS Convex

(* round half to even of the rational n/d (d > 0) -- numpy.around             *)
RoundHalfEven(n, d) ==
  LET fl == IF n >= 0 THEN n \div d ELSE -((-n + d - 1) \div d)
      twice == 2 * (n - fl * d)          \* 2 * fractional part * d, in 0 .. 2d
  IN IF twice < d THEN fl ELSE IF twice > d THEN fl + 1 ELSE IF fl % 2 = 0 THEN fl ELSE fl + 1

(* arange_with_interval(start, stop, step): number of points and the step actually used *)
ArangeCount(start, stop, stepn, stepd) == RoundHalfEven((stop - start) * stepd, stepn) + 1      \* start, stop integers; step = stepn/stepd
ArangeStepChanged(start, stop, stepn, stepd) ==
  LET m == ArangeCount(start, stop, stepn, stepd) - 1
  IN m = 0 \/ (stop - start) * stepd # m * stepn

(* all_combinations_of_bounds(include_ratios=True): corners plus the points at tenths on every segment between two corners *)
RatioPoints(lb, ub) ==
  LET C == CornerSet(lb, ub)
  IN {[j \in 1..Len(lb) |-> R(r * p[j] + (10 - r) * q[j], 10)] : r \in 0..10, p \in C, q \in C}

InSystem(x, lb, ub) == [j \in 1..Len(x) |-> lb[j] <= x[j] /\ (ub[j] = INF \/ x[j] <= ub[j])]

(* round_to_significant_digits(x, p) for a non-zero integer x: keep the p leading decimal digits, round half  *)
(* to even at that position.  Digits(n) = number of decimal digits of n >= 1.                                  *)
RECURSIVE Digits(_)
Digits(n) == IF n < 10 THEN 1 ELSE 1 + Digits(n \div 10)
RECURSIVE Pow10(_)
Pow10(k) == IF k = 0 THEN 1 ELSE 10 * Pow10(k - 1)
RoundSig(x, p) ==
  IF x = 0 THEN 0
  ELSE LET e == Digits(IF x < 0 THEN -x ELSE x)
       IN IF e <= p THEN x ELSE RoundHalfEven(x, Pow10(e - p)) * Pow10(e - p)
RoundSigIsTie(x, p) ==
  LET a == IF x < 0 THEN -x ELSE x
      e == Digits(IF a = 0 THEN 1 ELSE a)
  IN e > p /\ 2 * (a % Pow10(e - p)) = Pow10(e - p)

(* l1norm / squared l2norm of an integer vector *)
L1Norm(v) == SumTo([k \in 1..Len(v) |-> IF v[k] < 0 THEN -v[k] ELSE v[k]], Len(v))
L2NormSq(v) == SumTo([k \in 1..Len(v) |-> v[k] * v[k]], Len(v))

(* d_equally_spaced(n, d, one_inclusive): grid points k/(n-1) (inclusive) or k/n *)
EquallySpaced(n, d, incl) == [1..d -> {IF incl THEN R(k, n - 1) ELSE R(k, n) : k \in 0..(n - 1)}]
=============================================================================
