------------------------------- MODULE Models -------------------------------
(* The Poisson and excitation fitting models (lsq_linear(model='poisson'),    *)
(* lsq_linear_excitation), exactly characterisable part (DESIGN L2: TLC has   *)
(* no logarithm).                                                            *)
(*   q(x) = K(Ax + baseline)      (units 1/S, S = D*DK, integers)             *)
(*   Poisson   : minimise sum_i w_i (q_i - b_i log q_i)                       *)
(*               gradient_j = sum_i w_i M_ij (1 - b_i / q_i)   -- log free    *)
(*   excitation: minimise max_i | b_i/(1+b_i) - q_i/(1+q_i) |                 *)
(*               = max_i |b_i - q_i| / ((S + b_i)(S + q_i))  (times S)        *)
EXTENDS LsqLinear

QOf(s, x) == RelCapture(s, x)      \* integer vector, units 1/S

(* Poisson KKT certificate at a box corner x (all sources at a bound):          *)
(* sign of d/dx_j = sum_i M_ij (q_i - b_i) prod_{k # i} q_k   (q > 0)            *)
RECURSIVE ProdExcept(_, _, _)
ProdExcept(q, skip, k) == IF k = 0 THEN 1 ELSE (IF k = skip THEN 1 ELSE q[k]) * ProdExcept(q, skip, k - 1)
PoissonGradSign(s, b, x, j) ==
  LET q == QOf(s, x)
      M == NormM(s)
      d == Len(q)
  IN Sgn(SumTo([i \in 1..d |-> M[i][j] * (q[i] - b[i]) * ProdExcept(q, i, d)], d))
PoissonCornerCertified(s, b, x) ==
  LET q == QOf(s, x)
  IN /\ \A i \in 1..Len(q) : q[i] > 0
     /\ \A j \in 1..Len(x) :
          /\ (x[j] = s.lb[j] /\ x[j] # s.ub[j] => PoissonGradSign(s, b, x, j) >= 0)
          /\ (x[j] = s.ub[j] /\ x[j] # s.lb[j] => PoissonGradSign(s, b, x, j) <= 0)
(* the gradient of a smooth convex objective satisfying these signs at a corner    *)
(* certifies the corner as the global minimiser over the box                        *)
PoissonCorners(s, b) == {x \in CornerSet(s.lb, s.ub) : PoissonCornerCertified(s, b, x)}

(* excitation objective at x, as a rational (times S)                               *)
ExcTerm(S, bi, qi) == R(Abs(bi - qi), (S + bi) * (S + qi))
RECURSIVE RMaxOver(_, _)
RMaxOver(f, n) == IF n = 1 THEN f[1] ELSE RMax(f[n], RMaxOver(f, n - 1))
ExcObj(s, b, x) ==
  LET q == QOf(s, x)
      S == s.D * s.DK
  IN RMaxOver([i \in 1..Len(q) |-> ExcTerm(S, b[i], q[i])], Len(q))
ProbeSet(s) == ProbePoints(s, 8)
ExcBestProbe(s, b) ==
  LET P == ProbeSet(s)
      best == CHOOSE x \in P : \A y \in P : RLeq(ExcObj(s, b, x), ExcObj(s, b, y))
  IN [x |-> best, t |-> ExcObj(s, b, best)]

ModelRecord(s, b) ==
  LET cls == ClassOf(s, b)
      pc == PoissonCorners(s, b)
      eb == ExcBestProbe(s, b)
  IN [b |-> b, cls |-> cls,
      pcorner |-> IF pc = {} THEN <<>> ELSE CHOOSE x \in pc : TRUE,
      pcorner_q |-> IF pc = {} THEN <<>> ELSE QOf(s, CHOOSE x \in pc : TRUE),
      ncert |-> Cardinality(pc),
      exc_probe_x |-> eb.x, exc_probe_t |-> eb.t,
      (* in gamut => the best probe objective is zero only if a probe reproduces b; always >= 0 *)
      ok |-> /\ (cls = "exterior" => \A x \in ProbeSet(s) : ExcObj(s, b, x)[1] > 0)
             (* a certified Poisson corner is unique in prediction *)
             /\ \A x \in pc : \A y \in pc : QOf(s, x) = QOf(s, y)]
=============================================================================
