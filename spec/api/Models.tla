------------------------------- MODULE Models -------------------------------
(* The Poisson and excitation fitting models (lsq_linear(model='poisson'),    *)
(* lsq_linear_excitation), exactly characterisable part (DESIGN L2: TLC has   *)
(* no logarithm).                                                            *)
(*   q(x) = K(Ax + baseline)      (units 1/S, S = D*DK, integers)             *)
(*   Poisson   : minimise sum_i w_i (q_i - b_i log q_i)                       *)
(*               gradient_j = sum_i w_i M_ij (1 - b_i / q_i)   -- log free    *)
(*   excitation: minimise max_i | b_i/(1+b_i) - q_i/(1+q_i) |                 *)
(*               = max_i |b_i - q_i| / ((S + b_i)(S + q_i))  (times S)        *)
EXTENDS LsqLinear

QOf(s, x) == RelCapture(s, x)      \* integer vector, units 1/S

(* Poisson KKT certificate at a box corner x (all sources at a bound):          *)
(* sign of d/dx_j = sum_i M_ij (q_i - b_i) prod_{k # i} q_k   (q > 0)            *)
RECURSIVE ProdExcept(_, _, _)
ProdExcept(q, skip, k) == IF k = 0 THEN 1 ELSE (IF k = skip THEN 1 ELSE q[k]) * ProdExcept(q, skip, k - 1)
PoissonGradSign(s, b, x, j) ==
  LET q == QOf(s, x)
      M == NormM(s)
      d == Len(q)
  IN Sgn(SumTo([i \in 1..d |-> M[i][j] * (q[i] - b[i]) * ProdExcept(q, i, d)], d))
PoissonCornerCertified(s, b, x) ==
  LET q == QOf(s, x)
  IN /\ \A i \in 1..Len(q) : q[i] > 0
     /\ \A j \in 1..Len(x) :
          /\ (x[j] = s.lb[j] /\ x[j] # s.ub[j] => PoissonGradSign(s, b, x, j) >= 0)
          /\ (x[j] = s.ub[j] /\ x[j] # s.lb[j] => PoissonGradSign(s, b, x, j) <= 0)
(* the gradient of a smooth convex objective satisfying these signs at a corner    *)
(* certifies the corner as the global minimiser over the box                        *)
PoissonCorners(s, b) == {x \in CornerSet(s.lb, s.ub) : PoissonCornerCertified(s, b, x)}

(* excitation objective at x, as a rational (times S)                               *)
ExcTerm(S, bi, qi) == R(Abs(bi - qi), (S + bi) * (S + qi))
RECURSIVE RMaxOver(_, _)
RMaxOver(f, n) == IF n = 1 THEN f[1] ELSE RMax(f[n], RMaxOver(f, n - 1))
ExcObj(s, b, x) ==
  LET q == QOf(s, x)
      S == s.D * s.DK
  IN RMaxOver([i \in 1..Len(q) |-> ExcTerm(S, b[i], q[i])], Len(q))
ProbeSet(s) == ProbePoints(s, 8)
ExcBestProbe(s, b) ==
  LET P == ProbeSet(s)
      best == CHOOSE x \in P : \A y \in P : RLeq(ExcObj(s, b, x), ExcObj(s, b, y))
  IN [x |-> best, t |-> ExcObj(s, b, best)]

(* ---- certified optima that are NOT box corners, constructed backwards ---------------------------- *)
(* Choose d-1 free sources F (strictly inside their bounds, values xF), c = generalised cross product   *)
(* of their columns of M (so M_F^T c = 0), a sign t and a magnitude m.  Every other source is put at    *)
(* the bound that the sign of g_j = t * <column j, c> asks for.  Then                                    *)
(*   Poisson:    b_i = q_i (1 - r_i), r_i = t m c_i / (w_i T)  makes  sum_i w_i M_ij (1 - b_i/q_i)       *)
(*               = (m/T) g_j: zero on F, >= 0 at lower, <= 0 at upper bounds -> x is the global optimum  *)
(*               of the (convex) Poisson objective and its capture q is the unique optimal prediction;   *)
(*   excitation: e(b_i) = e(q_i) - sign(t c_i) * delta  makes all active errors equal to delta with      *)
(*               0 in sum_i |c_i| sign_i M_i + N_box(x): no feasible point lowers all active errors, so  *)
(*               the optimal value of the minimax objective is exactly delta.                           *)
MaxAbsOf(v) == SetMax({Abs(v[i]) : i \in 1..Len(v)})
BackX(s, F, xF, c, t) ==
  LET M == NormM(s)
  IN [j \in 1..Len(M[1]) |->
        IF \E k \in 1..Len(F) : F[k] = j THEN xF[CHOOSE k \in 1..Len(F) : F[k] = j]
        ELSE IF t * Dot(Col(M, j), c) < 0 THEN s.ub[j] ELSE s.lb[j]]
BackRecord(s, w, F, xF, t, m) ==
  LET M == NormM(s)
      d == Len(M)
      c == Cross([k \in 1..(d - 1) |-> Col(M, F[k])], d)
      x == BackX(s, F, xF, c, t)
      q == QOf(s, x)
      T == 4 * MaxAbsOf(c)
      S == s.D * s.DK
      Delta == 4 * (S + MaxAbsOf(q))
      eb == [i \in 1..d |-> RSub(R(q[i], S + q[i]), <<Sgn(t * c[i]), Delta>>)]
  IN [F |-> F, x |-> x, q |-> q, w |-> w, t |-> t, m |-> m, c |-> c, T |-> T,
      pbn |-> [i \in 1..d |-> q[i] * (w[i] * T - t * m * c[i])],        \* Poisson target i = pbn[i] / pbd[i]
      pbd |-> [i \in 1..d |-> w[i] * T * S],
      eb |-> [i \in 1..d |-> RDiv(eb[i], RSub(<<1, 1>>, eb[i]))],       \* excitation target i (capture units)
      delta |-> <<1, Delta>>,
      nactive |-> Cardinality({i \in 1..d : c[i] # 0})]
BackOK(s, r) ==
  LET M == NormM(s)
      d == Len(M)
      (* T * gradient_j of the Poisson objective, recomputed from the targets *)
      g(j) == SumTo([i \in 1..d |-> M[i][j] * ((r.q[i] * r.w[i] * r.T - r.pbn[i]) \div r.q[i])], d)
      free(j) == \E k \in 1..Len(r.F) : r.F[k] = j
  IN /\ \A i \in 1..d : r.q[i] > 0 /\ r.pbn[i] > 0 /\ (r.q[i] * r.w[i] * r.T - r.pbn[i]) % r.q[i] = 0
     /\ \A j \in 1..Len(M[1]) :
           /\ (free(j) => g(j) = 0 /\ s.lb[j] < r.x[j] /\ r.x[j] < s.ub[j])
           /\ (~free(j) /\ r.x[j] = s.lb[j] /\ s.lb[j] # s.ub[j] => g(j) >= 0)
           /\ (~free(j) /\ r.x[j] = s.ub[j] /\ s.lb[j] # s.ub[j] => g(j) <= 0)
     (* excitation targets: positive, and their excitation differs from that of q by exactly delta where active *)
     /\ \A i \in 1..d : r.eb[i][1] > 0 /\ r.eb[i][2] > 0
     /\ \A i \in 1..d :
           LET S == s.D * s.DK
               eq == R(r.q[i], S + r.q[i])
               et == RDiv(r.eb[i], RAdd(<<1, 1>>, r.eb[i]))
           IN IF r.c[i] = 0 THEN et = eq ELSE RSub(eq, et) = <<Sgn(r.t * r.c[i]), r.delta[2]>>
InnerVals(s, j) == {v \in {s.lb[j] + 1, s.ub[j] - 1} : s.lb[j] < v /\ v < s.ub[j]}
FreeAssign(s, F) ==
  {xF \in [1..Len(F) -> UNION {InnerVals(s, F[k]) : k \in 1..Len(F)}] : \A k \in 1..Len(F) : xF[k] \in InnerVals(s, F[k])}
BackValid(s, F) ==
  LET M == NormM(s)
      d == Len(M)
  IN \E i \in 1..d : Cross([k \in 1..(d - 1) |-> Col(M, F[k])], d)[i] # 0
BackRecords(s, W) ==
  LET M == NormM(s)
      d == Len(M)
      n == Len(M[1])
      All == IF ~Bounded(s) \/ d < 2 \/ n < d - 1 THEN {}
             ELSE UNION { {BackRecord(s, w, F, xF, t, m) : w \in W, xF \in FreeAssign(s, F), t \in {-1, 1}, m \in {1, 2}} :
                          F \in {G \in KSubsets(n, d - 1) : BackValid(s, G)} }
  IN {r \in All : \A i \in 1..d : r.q[i] > 0}

ModelRecord(s, b) ==
  LET cls == ClassOf(s, b)
      pc == PoissonCorners(s, b)
      eb == ExcBestProbe(s, b)
  IN [b |-> b, cls |-> cls,
      pcorner |-> IF pc = {} THEN <<>> ELSE CHOOSE x \in pc : TRUE,
      pcorner_q |-> IF pc = {} THEN <<>> ELSE QOf(s, CHOOSE x \in pc : TRUE),
      ncert |-> Cardinality(pc),
      exc_probe_x |-> eb.x, exc_probe_t |-> eb.t,
      (* in gamut => the best probe objective is zero only if a probe reproduces b; always >= 0 *)
      ok |-> /\ (cls = "exterior" => \A x \in ProbeSet(s) : ExcObj(s, b, x)[1] > 0)
             (* a certified Poisson corner is unique in prediction *)
             /\ \A x \in pc : \A y \in pc : QOf(s, x) = QOf(s, y)]
=============================================================================
