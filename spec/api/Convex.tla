------------------------------ MODULE Convex ------------------------------
(* dreye.api.convex: gamut membership (in_hull / in_hull_from_A /            *)
(* ReceptorEstimator.in_hull) and range_of_solutions, in exact arithmetic.   *)
(*                                                                           *)
(* Definition.  A target b (relative capture) is in the gamut iff            *)
(*     \E x : lb <= x <= ub  /\  K (A x + baseline) = b.                      *)
(* With the normalisation of Systems.tla (targets in units 1/(D*DK)):        *)
(*     r = b - blN,   in gamut  <=>  r \in Z(M, lb, ub).                      *)
EXTENDS Systems

TargetR(s, b) == VSub(b, NormBl(s))

(* membership class of target b (units 1/(D*DK)) for system s                 *)
ClassOf(s, b) ==
  LET M == NormM(s)
      r == TargetR(s, b)
      d == Len(M)
      n == Len(M[1])
  IN IF n < d THEN ClassThin(M, r, s.lb, s.ub)
     ELSE IF Bounded(s) THEN ClassZ(M, r, s.lb, s.ub)
     ELSE ClassCone(M, VSub(r, MatVec(M, s.lb)))

(* the same with everything that depends only on the system computed once     *)
Prep(s) ==
  LET M == NormM(s)
      d == Len(M)
      n == Len(M[1])
      kind == IF n < d THEN "thin" ELSE IF Bounded(s) THEN "zono" ELSE "cone"
  IN [M |-> M, blN |-> NormBl(s), kind |-> kind,
      F |-> IF kind = "zono" THEN ZonoFacets(M, s.lb, s.ub) ELSE {},
      CF |-> IF kind = "cone" THEN ConeFacets(M) ELSE {},
      apex |-> IF kind = "cone" THEN MatVec(M, s.lb) ELSE <<>>]
ClassP(s, p, b) ==
  LET r == VSub(b, p.blN)
  IN IF p.kind = "thin" THEN ClassThin(p.M, r, s.lb, s.ub)
     ELSE IF p.kind = "zono" THEN ClassF(p.F, r)
     ELSE LET c == VSub(r, p.apex)
          IN IF \E nu \in p.CF : Dot(nu, c) < 0 THEN "exterior"
             ELSE IF \A nu \in p.CF : Dot(nu, c) > 0 THEN "interior" ELSE "boundary"
ReproducibleP(s, p, b) ==
  LET r == VSub(b, p.blN)
  IN IF p.kind = "thin" THEN ClassThin(p.M, r, s.lb, s.ub) # "exterior"
     ELSE IF p.kind = "zono" THEN InZ_V(p.M, r, s.lb, s.ub)
     ELSE InCone_V(p.M, VSub(r, p.apex))

(* Definition by reproduction, V-form: some vertex of the solution polytope exists *)
Reproducible(s, b) ==
  LET M == NormM(s)
      r == TargetR(s, b)
  IN IF Len(M[1]) < Len(M) THEN ClassThin(M, r, s.lb, s.ub) # "exterior"
     ELSE IF Bounded(s) THEN InZ_V(M, r, s.lb, s.ub)
     ELSE InCone_V(M, VSub(r, MatVec(M, s.lb)))

(* the oracle (H-form) agrees with the definition (V-form)                     *)
ClassAgrees(s, b) == (ClassOf(s, b) # "exterior") <=> Reproducible(s, b)

(* ---- bounding box of the gamut in target units and target grids ------------ *)
TruncUb(s, span) == [j \in 1..Len(s.ub) |-> IF s.ub[j] = INF THEN s.lb[j] + span ELSE s.ub[j]]
BoxLo(s, i, ubt) == LET M == NormM(s) IN SumTo([j \in 1..Len(M[i]) |-> Min2(M[i][j] * s.lb[j], M[i][j] * ubt[j])], Len(M[i])) + NormBl(s)[i]
BoxHi(s, i, ubt) == LET M == NormM(s) IN SumTo([j \in 1..Len(M[i]) |-> Max2(M[i][j] * s.lb[j], M[i][j] * ubt[j])], Len(M[i])) + NormBl(s)[i]

(* about G points per axis, one ring outside *)
GridAxis(lo, hi, G) ==
  LET st == Max2(1, (hi - lo + G - 1) \div G)
  IN {lo - st + k * st : k \in 0..((hi - lo) \div st + 2)}
RECURSIVE GridRec(_, _)
GridRec(axes, k) == IF k = 0 THEN {<<>>} ELSE {Append(g, a) : g \in GridRec(axes, k - 1), a \in axes[k]}
Grid(s, G, span) ==
  LET ubt == TruncUb(s, span)
      d == Len(s.A)
      axes == [i \in 1..d |-> GridAxis(BoxLo(s, i, ubt), BoxHi(s, i, ubt), G)]
  IN GridRec(axes, d)

(* captures of the box corners (gamut vertices and other corner images)         *)
CornerTargets(s, span) == {RelCapture(s, x) : x \in CornerSet(s.lb, TruncUb(s, span))}
(* captures of strictly interior intensities (need (lb+ub) even: D = 4 lattices) *)
InteriorX(s, span) ==
  LET ubt == TruncUb(s, span)
      n == Len(s.lb)
  IN {[j \in 1..n |-> (s.lb[j] + ubt[j]) \div 2],
      [j \in 1..n |-> IF j % 2 = 1 THEN s.lb[j] + 1 ELSE ubt[j] - 1],
      [j \in 1..n |-> IF j % 2 = 0 THEN s.lb[j] + 1 ELSE ubt[j] - 1]}
InteriorTargets(s, span) == {RelCapture(s, x) : x \in InteriorX(s, span)}
FarTargets(s, span) ==
  LET ubt == TruncUb(s, span)
      d == Len(s.A)
  IN {[i \in 1..d |-> 3 * BoxHi(s, i, ubt) + 5], [i \in 1..d |-> BoxLo(s, i, ubt) - 7],
      [i \in 1..d |-> IF i = 1 THEN 2 * BoxHi(s, i, ubt) + 3 ELSE BoxLo(s, i, ubt)]}

Targets(s, G, span) == Grid(s, G, span) \cup CornerTargets(s, span) \cup InteriorTargets(s, span) \cup FarTargets(s, span)

(* ---- chromatic (L1-normalised) membership ---------------------------------- *)
(* b/|b|_1 in conv{ p/|p|_1 : p a non-zero corner capture }  <=>  b in cone(P):  *)
(* central projection onto the simplex preserves convex combinations.  Needs     *)
(* non-negative corner captures and a non-negative, non-zero target.             *)
ChromGens(s) == LET P == {p \in CornerTargets(s, 0) : \E i \in 1..Len(p) : p[i] # 0}
                IN Transpose(SortedVecs(P))
ChromOK(s) == Bounded(s) /\ \A p \in CornerTargets(s, 0) : \A i \in 1..Len(p) : p[i] >= 0
ChromTargetOK(b) == (\A i \in 1..Len(b) : b[i] >= 0) /\ (\E i \in 1..Len(b) : b[i] > 0)
ChromClass(V, b) == ClassCone(V, b)

(* ---- range of solutions ------------------------------------------------------ *)
(* extent of source j over the solution polytope, from its vertex set: <<min, max>> as rationals *)
RangeOf(s, b) ==
  LET M == NormM(s)
      V == SolVerts(M, TargetR(s, b), s.lb, s.ub)
      n == Len(M[1])
      mn(j) == CHOOSE v \in V : \A u \in V : v.num[j] * u.den <= u.num[j] * v.den
      mx(j) == CHOOSE v \in V : \A u \in V : v.num[j] * u.den >= u.num[j] * v.den
  IN [empty |-> V = {},
      lo |-> IF V = {} THEN <<>> ELSE [j \in 1..n |-> <<mn(j).num[j], mn(j).den>>],
      hi |-> IF V = {} THEN <<>> ELSE [j \in 1..n |-> <<mx(j).num[j], mx(j).den>>],
      nverts |-> Cardinality(V)]
=============================================================================
