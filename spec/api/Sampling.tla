------------------------------ MODULE Sampling ------------------------------
(* dreye.api.sampling.sample_in_hull / ReceptorEstimator.sample_in_gamut.     *)
(* Values are random, so the specification is used in the code -> spec         *)
(* direction only: a recorded sample set is accepted iff                        *)
(*   - it has exactly n points,                                                 *)
(*   - every point satisfies every exact facet of the hull (fixed point, tol),  *)
(*   - with l1: every point sums to l1,                                         *)
(*   - the same (cloud, n, seed, engine, l1) gives the same set again,          *)
(*   - region counts of the default engine are within a concentration bound of  *)
(*     n * (exact area fraction) for the exact fan triangulation of the hull.   *)
EXTENDS Metrics

(* fan triangulation of a 2-D hull from its lexicographically smallest vertex:   *)
(* set of [tri |-> <<v0, p, q>>, area2]                                           *)
FanRegions(P) ==
  LET F == HullFacets(P)
      V == HullVerts(P)
      v0 == CHOOSE v \in V : \A u \in V : v = u \/ VLess(v, u)
      edges == {e \in SUBSET V : Cardinality(e) = 2 /\ v0 \notin e /\ \E f \in F : \A p \in e : Dot(f.nu, p) = f.h}
  IN {LET p == CHOOSE x \in e : \A y \in e : x = y \/ VLess(x, y)
          q == CHOOSE x \in e : x # p
      IN [tri |-> <<v0, p, q>>, area2 |-> Abs(Det(<<VSub(p, v0), VSub(q, v0)>>))] : e \in edges}

(* |c - n p| <= 6 sqrt(n p (1-p)) + 1  with p = a/A, in integers:                  *)
(*   (|c A - n a| - A)^2 <= 36 n a (A - a)      (when |cA - na| > A)                *)
CountOK(c, n, a, A) ==
  LET dv == Abs(c * A - n * a)
  IN dv <= A \/ (dv - A <= 46000 /\ (dv - A) * (dv - A) <= 36 * n * a * (A - a))   \* 46000^2 < 2^31: no overflow
=============================================================================
