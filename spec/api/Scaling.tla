------------------------------ MODULE Scaling ------------------------------
(* ReceptorEstimator.gamut_l1_scaling / gamut_dist_scaling, exact.           *)
(* Targets are integer vectors in units 1/S (S = D*DK), non-negative.         *)
EXTENDS Convex

(* ---- intensity (L1) scaling -------------------------------------------------*)
(*   B' = (B - bl') * amax / bmax + bl',  amax = min_i max_j A'_ij ub_j,          *)
(*   bmax = max entry of B - bl'                                                  *)
AMax(s) ==
  LET M == NormM(s)
  IN MinSeq([i \in 1..Len(M) |-> MaxSeq([j \in 1..Len(M[i]) |-> M[i][j] * s.ub[j]])])   \* units 1/S
BMax(s, Bs) == MaxSeq([k \in 1..Len(Bs) |-> MaxSeq(VSub(Bs[k], NormBl(s)))])
L1Scaled(s, Bs) ==
  LET a == AMax(s)
      m == BMax(s, Bs)
  IN [k \in 1..Len(Bs) |-> [i \in 1..Len(Bs[k]) |-> RAdd(R((Bs[k][i] - NormBl(s)[i]) * a, m), RInt(NormBl(s)[i]))]]
L1Factor(s, Bs) == R(AMax(s), BMax(s, Bs))

(* ---- chromatic (distance) scaling ---------------------------------------------*)
(* chromaticity of b: b / sum(b); centre: neutral / sum(neutral); chromatic gamut:   *)
(* cone over the non-zero corner captures.  A sample's exit multiple along           *)
(* centre + t (beta - centre):  t* = min over facets f with nu_f.(c - beta) > 0 of    *)
(*   L (nu.nu0) / ( L (nu.nu0) - L0 (nu.b) ),  L = sum b, L0 = sum nu0                 *)
ExitMultiple(F, b, nu0) ==
  LET L == Sum(b)
      L0 == Sum(nu0)
      cand == {R(L * Dot(f, nu0), L * Dot(f, nu0) - L0 * Dot(f, b)) : f \in {g \in F : L * Dot(g, nu0) - L0 * Dot(g, b) > 0}}
  IN IF cand = {} THEN <<INF, 1>> ELSE CHOOSE m \in cand : \A o \in cand : RLeq(m, o)

NeutralInside(F, nu0) == \A f \in F : Dot(f, nu0) > 0
IsZero(b) == \A i \in 1..Len(b) : b[i] = 0

DistScaled(s, Bs, nu0) ==
  LET V == ChromGens(s)
      F == ConeFacets(V)
      rows == {k \in 1..Len(Bs) : ~IsZero(Bs[k])}
      alphas == {ExitMultiple(F, Bs[k], nu0) : k \in rows} \ {<<INF, 1>>}     \* rows on the neutral direction never exit
      amin == IF alphas = {} THEN <<INF, 1>> ELSE CHOOSE m \in alphas : \A o \in alphas : RLeq(m, o)
      allin == \A k \in rows : InCone_H(V, Bs[k])
      alpha == IF allin \/ amin[1] = INF THEN <<1, 1>> ELSE amin
  IN [ok |-> NeutralInside(F, nu0), allin |-> allin, alpha |-> alpha,
      strictly |-> \A k \in rows : ClassCone(V, Bs[k]) # "boundary",
      out |-> [k \in 1..Len(Bs) |->
                 IF IsZero(Bs[k]) THEN [i \in 1..Len(Bs[k]) |-> <<0, 1>>]
                 ELSE LET L == Sum(Bs[k])
                          L0 == Sum(nu0)
                      IN [i \in 1..Len(Bs[k]) |->
                            (* L * ( c_i + alpha (beta_i - c_i) ) *)
                            RAdd(RMul(R(L * nu0[i], L0), RSub(<<1, 1>>, alpha)), RMul(alpha, RInt(Bs[k][i])))]]]

(* laws *)
TotalsPreserved(Bs, res) == \A k \in 1..Len(Bs) : RSumTo(res.out[k], Len(Bs[k])) = RInt(Sum(Bs[k]))
(* after scaling every chromaticity is in the chromatic gamut (membership of the scaled row in the cone) *)
ScaledInside(s, res) ==
  LET V == ChromGens(s)
      F == ConeFacets(V)
  IN \A k \in 1..Len(res.out) : \A f \in F :
        RLeq(<<0, 1>>, RSumTo([i \in 1..Len(f) |-> RMul(RInt(f[i]), res.out[k][i])], Len(f)))
=============================================================================
