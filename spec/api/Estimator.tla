----------------------------- MODULE Estimator -----------------------------
(* dreye.ReceptorEstimator as a state machine.                               *)
(*                                                                           *)
(* Registered state (what the answers may depend on):                        *)
(*   filters F (fixed per model run), adaptation K, baseline bl,             *)
(*   system = sources -> capture matrix A, bounds lb/ub,                     *)
(*   targets B (and the result of the last internal fit).                    *)
(* One action per public registration / fit call; every read-only query is   *)
(* an operator of the registered state (Answers) and a stuttering action.    *)
(* Values are exact: K, bl, lb, ub, targets are rationals <<n, d>>; A and    *)
(* spectra are integers; INF marks an infinite upper bound.                  *)
(*                                                                           *)
(* Answers are computed by converting the registered state into a Systems    *)
(* record (common denominators) and calling the operators of Capture /       *)
(* Convex / LsqLinear: the object adds no semantics of its own.              *)
EXTENDS LsqLinear, Capture

CONSTANTS Filters,      \* d x nd integer matrix (unit step domain)
          SrcPool,      \* sequence of source sets (each n x nd integer matrix)
          BoundPool,    \* sequence of <<lb, ub>>; lb/ub = sequence of rationals, <<>> = None (argument not passed)
          KPool,        \* sequence of [shape, K]: shape \in {"1","d","dd"}, K = d x d matrix of rationals
          BlPool,       \* sequence of [shape, bl]: shape \in {"1","d"}, bl = d-vector of rationals
          BgPool,       \* sequence of background spectra (length nd integer sequences)
          XaPool,       \* sequence of adaptation intensity vectors (integer sequences, any length: must match n)
          TgtPool,      \* sequence of target sets (sequence of d-vectors of rationals)
          UncPool,      \* sequence of filter uncertainties (d x nd integer matrices: standard deviation per filter sample)
          WPool,        \* sequence of explicit per-receptor weightings W (d-vectors of integers) for register_targets
          MaxDK         \* magnitude guard: adaptation steps whose common denominator exceeds it are not explored

VARIABLES est, hist
evars == <<est, hist>>

D0 == Len(Filters)
R0 == <<0, 1>>
R1 == <<1, 1>>
RIsInf(r) == r[1] = INF
RMatVec(M, v) == [i \in 1..Len(M) |-> RDot(M[i], v)]
RDiag(v) == [i \in 1..Len(v) |-> [j \in 1..Len(v) |-> IF i = j THEN v[i] ELSE R0]]
RVAdd(u, v) == [i \in 1..Len(u) |-> RAdd(u[i], v[i])]
RInv(r) == RDiv(R1, r)

(* crossed bounds (a lower bound above its upper bound): a transient state that a sequence of partial       *)
(* register_bounds calls may pass through; the system has no gamut then and nothing is asked of it            *)
Crossed(e) == e.reg /\ \E j \in 1..Len(e.lb) : ~RIsInf(e.ub[j]) /\ RLt(e.ub[j], e.lb[j])


(* capture of a spectrum by the registered filters (unit step): integers       *)
SpecCapture(sig) == [i \in 1..D0 |-> TrapzUnit2(Prod(Filters[i], sig)) \div 2]
CaptureMatrix(src) == [i \in 1..D0 |-> [k \in 1..Len(src) |-> TrapzUnit2(Prod(Filters[i], src[k])) \div 2]]
(* only spectra with zero end points are used, so the doubled integral is even *)

(* variance capture: the filters' variance (sd squared) integrated against the   *)
(* squared spectrum (ReceptorEstimator.uncertainty_capture, 2-D uncertainty)     *)
Sq(v) == [k \in 1..Len(v) |-> v[k] * v[k]]
VarCapture(fu, sig) == [i \in 1..D0 |-> TrapzUnit2(Prod(Sq(fu[i]), Sq(sig))) \div 2]
VarCaptureMatrix(fu, src) == [i \in 1..D0 |-> [k \in 1..Len(src) |-> TrapzUnit2(Prod(Sq(fu[i]), Sq(src[k]))) \div 2]]

InitEst == [K |-> RDiag(Vec(D0, R1)), kshape |-> "1", bl |-> Vec(D0, R0), blshape |-> "1",
            reg |-> FALSE, A |-> <<>>, lb |-> <<>>, ub |-> <<>>,
            treg |-> FALSE, tB |-> <<>>, W |-> Vec(D0, 1), fitted |-> FALSE, nfit |-> 0,
            src |-> 0,        \* index of the registered source set in SrcPool (0 = none)
            fu |-> <<>>,      \* registered filter uncertainty; <<>> = None
            Eps |-> <<>>]     \* capture variance per filter and source; <<>> = 'heteroscedastic' (or no system yet)

Init == est = InitEst /\ hist = <<>>

Act(op, k, add, ab) == [op |-> op, k |-> k, add |-> add, ab |-> ab]
Log(a) == hist' = Append(hist, a)

(* ---- registration actions -------------------------------------------------- *)
RegisterSystem(k, bk) ==
  LET src == SrcPool[k]
      n == Len(src)
      bp == BoundPool[bk]
      lb == IF bp[1] = <<>> THEN Vec(n, R0) ELSE bp[1]
      ub == IF bp[2] = <<>> THEN Vec(n, <<INF, 1>>) ELSE bp[2]
  IN /\ (bp[1] = <<>> \/ Len(bp[1]) = n) /\ (bp[2] = <<>> \/ Len(bp[2]) = n)
     /\ est' = [est EXCEPT !.reg = TRUE, !.A = CaptureMatrix(src), !.lb = lb, !.ub = ub, !.src = k,
                           !.Eps = IF est.fu = <<>> THEN <<>> ELSE VarCaptureMatrix(est.fu, src)]
     /\ Log(Act("register_system", k * 100 + bk, FALSE, FALSE))

(* The capture variance Epsilon of the system is derived from the registered uncertainty: registering a  *)
(* new uncertainty re-derives it for an already registered system (an explicitly passed Epsilon is not     *)
(* modelled).  k = 0 registers None.  [The code used to compute Epsilon once, in register_system, from the  *)
(* uncertainty registered at that time: finding D24, fixed.]                                               *)
RegisterUncertainty(k) ==
  /\ LET fu == IF k = 0 THEN <<>> ELSE UncPool[k]
     IN est' = [est EXCEPT !.fu = fu,
                           !.Eps = IF ~est.reg \/ fu = <<>> THEN <<>> ELSE VarCaptureMatrix(fu, SrcPool[est.src])]
  /\ Log(Act("register_uncertainty", k, FALSE, FALSE))

(* a registration that fails (upper bounds partly finite, partly infinite: rejected by the library): the    *)
(* call raises and the object is exactly as it was -- in particular a later register_uncertainty re-derives *)
(* Epsilon from the sources registered before                                                                *)
RegisterSystemBad(k) ==
  /\ Len(SrcPool[k]) >= 2
  /\ est' = est
  /\ Log(Act("register_system_bad", k, FALSE, FALSE))

RegisterBounds(bk) ==
  LET bp == BoundPool[bk]
      n == Len(est.A[1])
  IN /\ est.reg
     /\ (bp[1] = <<>> \/ Len(bp[1]) = n) /\ (bp[2] = <<>> \/ Len(bp[2]) = n)
     /\ est' = [est EXCEPT !.lb = IF bp[1] = <<>> THEN est.lb ELSE bp[1],
                           !.ub = IF bp[2] = <<>> THEN est.ub ELSE bp[2]]
     /\ Log(Act("register_bounds", bk, FALSE, FALSE))

RegisterAdaptation(k) ==
  /\ est' = [est EXCEPT !.K = KPool[k].K, !.kshape = KPool[k].shape]
  /\ Log(Act("register_adaptation", k, FALSE, FALSE))

RegisterBaseline(k) ==
  /\ est' = [est EXCEPT !.bl = BlPool[k].bl, !.blshape = BlPool[k].shape]
  /\ Log(Act("register_baseline", k, FALSE, FALSE))

RECURSIVE LcmSeq(_, _)
Lcm(a, b) == (a * b) \div Gcd(a, b)
LcmSeq(s, k) == IF k = 0 THEN 1 ELSE Lcm(s[k][2], LcmSeq(s, k - 1))
(* K := 1/(q + baseline)   or   K := K + 1/(q + baseline)                       *)
Adapt(q, add, ab) ==
  LET qb == [i \in 1..D0 |-> IF ab THEN RAdd(RInt(q[i]), est.bl[i]) ELSE RInt(q[i])]
      inv == [i \in 1..D0 |-> RInv(qb[i])]
      Kd == [i \in 1..D0 |-> IF add THEN RAdd(est.K[i][i], inv[i]) ELSE inv[i]]
  IN [est EXCEPT !.K = RDiag(Kd), !.kshape = "d"]
AdaptOK(q, add, ab) ==
  /\ (add => est.kshape # "dd")        \* adding a vector to a matrix adaptation is not defined by the API
  /\ \A i \in 1..D0 : (IF ab THEN RAdd(RInt(q[i]), est.bl[i]) ELSE RInt(q[i]))[1] > 0
  /\ LcmSeq([i \in 1..D0 |-> Adapt(q, add, ab).K[i][i]], D0) <= MaxDK

RegisterBackgroundAdaptation(k, add, ab) ==
  LET q == SpecCapture(BgPool[k])
  IN /\ AdaptOK(q, add, ab)
     /\ est' = Adapt(q, add, ab)
     /\ Log(Act("register_background_adaptation", k, add, ab))

RegisterSystemAdaptation(k, add, ab) ==
  /\ est.reg /\ Len(XaPool[k]) = Len(est.A[1])
  /\ LET q == MatVec(est.A, XaPool[k])
     IN /\ AdaptOK(q, add, ab)
        /\ est' = Adapt(q, add, ab)
  /\ Log(Act("register_system_adaptation", k, add, ab))

(* W not passed (wk = 0): the weighting falls back to the constructor's w (ones)   *)
RegisterTargets(k, wk) ==
  /\ est.reg
  /\ est' = [est EXCEPT !.treg = TRUE, !.tB = TgtPool[k], !.fitted = FALSE, !.nfit = 0,
                        !.W = IF wk = 0 THEN Vec(D0, 1) ELSE WPool[wk]]
  /\ Log(Act("register_targets", 10 * k + wk, FALSE, FALSE))

(* ---- registered state -> Systems record ------------------------------------- *)
Flat(M) == [k \in 1..(Len(M) * Len(M[1])) |-> M[((k - 1) \div Len(M[1])) + 1][((k - 1) % Len(M[1])) + 1]]
ToInt(r, D) == (r[1] * D) \div r[2]

AsSystem(e) ==
  LET n == Len(e.A[1])
      D == Lcm(4, Lcm(LcmSeq(e.lb, n), Lcm(LcmSeq([j \in 1..n |-> IF RIsInf(e.ub[j]) THEN R1 ELSE e.ub[j]], n), LcmSeq(e.bl, D0))))
      DK == LcmSeq(Flat(e.K), D0 * D0)
  IN Sys(e.A, D,
         [j \in 1..n |-> ToInt(e.lb[j], D)],
         [j \in 1..n |-> IF RIsInf(e.ub[j]) THEN INF ELSE ToInt(e.ub[j], D)],
         IF e.kshape = "dd" THEN "matrix" ELSE IF e.kshape = "d" THEN "vector" ELSE "scalar",
         [i \in 1..D0 |-> [j \in 1..D0 |-> ToInt(e.K[i][j], DK)]], DK,
         IF e.blshape = "d" THEN "vector" ELSE "scalar",
         [i \in 1..D0 |-> ToInt(e.bl[i], D)])

(* a target given as rationals, in the integer units 1/(D*DK) of system s       *)
TargetInt(s, b) == [i \in 1..Len(b) |-> ToInt(b[i], s.D * s.DK)]
Representable(s, b) == \A i \in 1..Len(b) : (b[i][1] * s.D * s.DK) % b[i][2] = 0

(* ---- internal fit: X := optimum, B := its prediction.  The numeric value of    *)
(* the optimum is C04's subject; here the state only records that (and how often)  *)
(* the registered targets have been replaced by their fitted prediction.  The      *)
(* harness reads the new B from the object, checks the fit post-condition against  *)
(* a fresh object built from the registered state, and carries it forward.         *)
(* kind: 0 = fit(), 1 = fit_underdetermined(), 2 = minimize_variance(), 3 = fit_adaptive(): all of them, called     *)
(* without explicit targets, store X and replace B by the fitted capture.  fit_underdetermined asks the target to be  *)
(* reproduced (a constraint): it is only explored when every registered target is strictly inside the gamut.          *)
FitKinds == 0..3
FitInternal(kind) ==
  /\ est.reg /\ est.treg /\ ~Crossed(est)
  /\ (kind = 1 => /\ D0 < Len(est.A[1])
                  /\ est.nfit = 0          \* the registered (lattice) targets themselves, not an earlier prediction
                  /\ LET s == AsSystem(est)
                     IN \A k \in 1..Len(est.tB) : Representable(s, est.tB[k]) /\ ClassOf(s, TargetInt(s, est.tB[k])) = "interior")
  (* fit_adaptive looks for a feasible pair of scales; with zero lower bounds and zero baseline the pair (0, 0) is  *)
  (* always feasible, otherwise the feasible set may be empty (then the call raises): only the former is explored  *)
  /\ (kind = 3 => (\A j \in 1..Len(est.lb) : est.lb[j][1] = 0) /\ (\A i \in 1..D0 : est.bl[i][1] = 0))
  /\ est' = [est EXCEPT !.fitted = TRUE, !.nfit = est.nfit + 1]
  /\ Log(Act("fit", kind, FALSE, FALSE))

(* ---- answers of the read-only queries ---------------------------------------- *)
(* query inputs are fixed probes: spectra = BgPool, intensities = XaPool, targets  *)
(* = ProbeTargets (rationals in quarter units)                                     *)
RelOf(e, q) == RMatVec(e.K, [i \in 1..D0 |-> RAdd(q[i], e.bl[i])])
ProbeTargets == {<<R(2, 4), R(1, 4)>>, <<R(6, 4), R(6, 4)>>, <<R(3, 4), R(10, 4)>>, <<R(14, 4), R(2, 4)>>, <<R(14, 4), R(14, 4)>>}

SysAnswers(e) ==
  LET s == AsSystem(e)
      n == Len(e.A[1])
      bounded == \A j \in 1..n : ~RIsInf(e.ub[j])
      PT == {b \in ProbeTargets : Representable(s, b)}
  IN [A |-> e.A,
      underdetermined |-> D0 < n,
      system_capture |-> [k \in {k \in 1..Len(XaPool) : Len(XaPool[k]) = n} |-> MatVec(e.A, XaPool[k])],
      system_relative_capture |-> [k \in {k \in 1..Len(XaPool) : Len(XaPool[k]) = n} |->
                                     RelOf(e, RVec(MatVec(e.A, XaPool[k])))],
      in_hull |-> {[b |-> b, cls |-> ClassOf(s, TargetInt(s, b))] : b \in PT},
      skipped_probes |-> Cardinality(ProbeTargets) - Cardinality(PT)]

(* error behaviour: which exception (if any) each call raises in the registered state e   *)
(* ("ok" = returns).  Calls that would change the state are issued on a copy by the harness. *)
ErrorsOf(e) ==
  LET under == e.reg /\ D0 < Len(e.A[1])
      bounded == e.reg /\ \A j \in 1..Len(e.ub) : ~RIsInf(e.ub[j])
  IN [system_capture |-> IF e.reg THEN "ok" ELSE "AssertionError",
      in_system |-> IF e.reg THEN "ok" ELSE "AssertionError",
      register_bounds |-> IF e.reg THEN "ok" ELSE "AssertionError",
      register_targets |-> IF e.reg THEN "ok" ELSE "AssertionError",
      fit_registered |-> IF e.reg /\ e.treg THEN "ok" ELSE "AssertionError",
      fit_unknown_model |-> IF e.reg THEN "NameError" ELSE "AssertionError",
      fit_n_jobs |-> IF e.reg THEN "NotImplementedError" ELSE "AssertionError",
      range_not_underdetermined |-> IF ~e.reg THEN "AssertionError" ELSE IF under THEN "n/a" ELSE "ValueError",
      fit_underdetermined_not_under |-> IF ~e.reg THEN "AssertionError" ELSE IF under THEN "n/a" ELSE "AssertionError",
      gamut_metric |-> IF ~e.reg THEN "AssertionError" ELSE IF bounded THEN "ok" ELSE "ValueError",
      sample_unknown_engine |-> IF ~e.reg THEN "AssertionError" ELSE IF bounded THEN "NameError" ELSE "n/a",
      uncertainty_capture |-> IF e.fu = <<>> THEN "AssertionError" ELSE "ok"]

Answers(e) ==
  [capture |-> [k \in 1..Len(BgPool) |-> SpecCapture(BgPool[k])],
   relative_capture |-> [k \in 1..Len(BgPool) |-> RelOf(e, RVec(SpecCapture(BgPool[k])))],
   K |-> e.K, kshape |-> e.kshape, baseline |-> e.bl,
   registered |-> e.reg, registered_targets |-> e.treg,
   lb |-> e.lb, ub |-> e.ub,
   tB |-> e.tB, W |-> e.W, fitted |-> e.fitted, nfit |-> e.nfit,
   has_uncertainty |-> e.fu # <<>>,
   uncertainty_capture |-> IF e.fu = <<>> THEN <<>> ELSE [k \in 1..Len(BgPool) |-> VarCapture(e.fu, BgPool[k])],
   Epsilon |-> e.Eps,
   errors |-> ErrorsOf(e),
   crossed |-> Crossed(e),
   sys |-> IF e.reg /\ ~Crossed(e) THEN SysAnswers(e) ELSE [none |-> TRUE]]

(* a read-only query: stutters on the registered state                            *)
Query == UNCHANGED est /\ Log(Act("query", 0, FALSE, FALSE))

Register ==
  \/ \E k \in 1..Len(SrcPool), bk \in 1..Len(BoundPool) : RegisterSystem(k, bk)
  \/ \E k \in 1..Len(SrcPool) : RegisterSystemBad(k)
  \/ \E bk \in 1..Len(BoundPool) : RegisterBounds(bk)
  \/ \E k \in 1..Len(KPool) : RegisterAdaptation(k)
  \/ \E k \in 1..Len(BlPool) : RegisterBaseline(k)
  \/ \E k \in 1..Len(BgPool), add \in BOOLEAN, ab \in BOOLEAN : RegisterBackgroundAdaptation(k, add, ab)
  \/ \E k \in 1..Len(XaPool), add \in BOOLEAN, ab \in BOOLEAN : RegisterSystemAdaptation(k, add, ab)
  \/ \E k \in 1..Len(TgtPool), wk \in 0..Len(WPool) : RegisterTargets(k, wk)
  \/ \E k \in 0..Len(UncPool) : RegisterUncertainty(k)
  \/ \E kind \in FitKinds : FitInternal(kind)
ENext == Register \/ Query

(* ---- properties ---------------------------------------------------------------- *)
IsQuery == hist' # hist /\ hist'[Len(hist')].op = "query"
QueriesArePure == [][IsQuery => UNCHANGED est]_evars
(* frame conditions: what each registration call may write                         *)
Wrote(f) == est'[f] # est[f]
FrameOK ==
  [][LET a == hist'[Len(hist')]
     IN hist' # hist =>
        /\ (a.op \in {"register_adaptation", "register_background_adaptation", "register_system_adaptation"}
              => \A f \in {"bl", "blshape", "reg", "A", "lb", "ub", "treg", "tB", "W", "fitted", "nfit", "fu", "Eps", "src"} : ~Wrote(f))
        /\ (a.op = "register_baseline" => \A f \in {"K", "kshape", "reg", "A", "lb", "ub", "treg", "tB", "W", "fitted", "nfit", "fu", "Eps", "src"} : ~Wrote(f))
        /\ (a.op = "register_bounds" => \A f \in {"K", "kshape", "bl", "blshape", "reg", "A", "treg", "tB", "W", "fitted", "nfit", "fu", "Eps", "src"} : ~Wrote(f))
        /\ (a.op = "register_system_bad" => UNCHANGED est)
        /\ (a.op = "register_system" => \A f \in {"K", "kshape", "bl", "blshape", "treg", "tB", "W", "fitted", "nfit", "fu"} : ~Wrote(f))
        /\ (a.op = "register_targets" => \A f \in {"K", "kshape", "bl", "blshape", "reg", "A", "lb", "ub", "fu", "Eps", "src"} : ~Wrote(f))
        /\ (a.op = "register_uncertainty" => \A f \in {"K", "kshape", "bl", "blshape", "reg", "A", "lb", "ub", "treg", "tB", "W", "fitted", "nfit", "src"} : ~Wrote(f))
        /\ (a.op = "fit" => \A f \in {"K", "kshape", "bl", "blshape", "reg", "A", "lb", "ub", "treg", "tB", "W", "fu", "Eps", "src"} : ~Wrote(f))
    ]_evars
(* after adapting to a background (baseline included) its relative capture is 1     *)
AdaptedBackgroundIsOne ==
  [][LET a == hist'[Len(hist')]
     IN (hist' # hist /\ a.op = "register_background_adaptation" /\ ~a.add /\ a.ab)
          => RelOf(est', RVec(SpecCapture(BgPool[a.k]))) = Vec(D0, R1)
    ]_evars
(* the system's Epsilon is at all times the variance capture of its sources under the currently          *)
(* registered uncertainty ('heteroscedastic' = <<>> when there is none): order of registration is immaterial *)
EpsilonIsDerived ==
  est.reg => est.Eps = IF est.fu = <<>> THEN <<>> ELSE VarCaptureMatrix(est.fu, SrcPool[est.src])
AdaptedSystemIsOne ==
  [][LET a == hist'[Len(hist')]
     IN (hist' # hist /\ a.op = "register_system_adaptation" /\ ~a.add /\ a.ab)
          => RelOf(est', RVec(MatVec(est'.A, XaPool[a.k]))) = Vec(D0, R1)
    ]_evars
=============================================================================
