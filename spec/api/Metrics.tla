------------------------------ MODULE Metrics ------------------------------
(* dreye.api.metrics: volume, mean width, gamut metric (exactly             *)
(* characterisable part) as a small state machine on point clouds:          *)
(* actions Translate / SignedPermute / Scale / AddPoint transform the cloud; *)
(* the properties relate the metric before and after each action.           *)
EXTENDS Project

(* twice the area of the convex hull of a 2-D integer cloud (fan from one vertex) *)
PolyArea2(P) ==
  LET F == HullFacets(P)
      V == HullVerts(P)
      v0 == CHOOSE v \in V : \A u \in V : v = u \/ VLess(v, u)
      edges == {e \in SUBSET V : Cardinality(e) = 2 /\ \E f \in F : \A p \in e : Dot(f.nu, p) = f.h}
      tri(e) == LET p == CHOOSE x \in e : TRUE
                    q == CHOOSE x \in e : x # p
                IN Abs(Det(<<VSub(p, v0), VSub(q, v0)>>))
      RECURSIVE acc(_)
      acc(E) == IF E = {} THEN 0 ELSE LET e == CHOOSE x \in E : TRUE IN tri(e) + acc(E \ {e})
  IN acc(edges)
FullDim2(P) == \E p \in P, q \in P, r \in P : Det(<<VSub(q, p), VSub(r, p)>>) # 0

(* zonotope cloud: corner images of the box under integer generators (rows of G^T)   *)
ZonoCloud(G, lb, ub) == {MatVec(G, x) : x \in CornerSet(lb, ub)}
(* perimeter of an axis-aligned / lattice-length zonotope: mean width coefficient    *)
(* sum_j |g_j| (ub_j - lb_j) with integer |g_j| (listed per generator)               *)
WidthCoef(lens, lb, ub) == SumTo([j \in 1..Len(lens) |-> lens[j] * (ub[j] - lb[j])], Len(lens))

(* cloud transformations *)
Translate(P, t) == {VAdd(p, t) : p \in P}
SignedPermute(P, perm, sg) == {[i \in 1..Len(p) |-> sg[i] * p[perm[i]]] : p \in P}
ScaleBy(P, k) == {VScale(k, p) : p \in P}
AddPoint(P, x) == P \cup {x}
=============================================================================
