------------------------------ MODULE Coords ------------------------------
(* dreye.api.spherical (n-sphere) and dreye.api.barycentric, the exactly    *)
(* characterisable part (DESIGN L2: no transcendental values in TLC).        *)
EXTENDS DNum

(* ---- n-sphere: x integer vector of length d >= 2 -------------------------- *)
Norm2From(x, i) == SumTo([k \in 1..(Len(x) - i + 1) |-> x[i + k - 1] * x[i + k - 1]], Len(x) - i + 1)
TailZero(x, i) == \A k \in i..Len(x) : x[k] = 0
(* angle i (1 <= i <= d-1).  Polar angles i < d-1 lie in [0, pi]; the last      *)
(* (azimuth) in [0, 2 pi).  An angle is "defined" unless the tail x[i..d] is     *)
(* zero, in which case the implementation returns 0.  For a defined angle         *)
(*    cos^2 = x_i^2 / sum_{j>=i} x_j^2,  sign(cos) = sign(x_i)                    *)
(* and the azimuth is in the upper half plane iff x_d >= 0.                       *)
Angle(x, i) ==
  LET d == Len(x)
      zero == IF i < d - 1 THEN TailZero(x, i) ELSE TailZero(x, d - 1)
  IN [defined |-> ~zero,
      cos2 |-> IF zero THEN <<1, 1>> ELSE R(x[i] * x[i], Norm2From(x, i)),
      sgn |-> IF zero THEN 1 ELSE Sgn(x[i]),
      upper |-> IF i = d - 1 THEN x[d] >= 0 ELSE TRUE]
Spherical(x) == [r2 |-> Norm2From(x, 1), angles |-> [i \in 1..(Len(x) - 1) |-> Angle(x, i)]]

(* law: the squared radius decomposes along the angles: x_i^2 = r_i^2 cos^2 where *)
(* r_i^2 = sum_{j>=i} x_j^2 (this is what makes the round trip exact)              *)
Decomposes(x) == \A i \in 1..(Len(x) - 1) :
   LET a == Angle(x, i)
   IN a.defined => REq(RMul(a.cos2, RInt(Norm2From(x, i))), RInt(x[i] * x[i]))

(* ---- barycentric: regular simplex with unit edges ------------------------------ *)
(* For points p, q with barycentric weights p/|p|, q/|q| (|.| = coordinate sum > 0)  *)
(* the squared distance of their images is 1/2 * sum_i (p_i/|p| - q_i/|q|)^2,         *)
(* a consequence of ||V_i - V_j|| = 1 alone (Gram form; no square roots).             *)
BaryDist2(p, q) ==
  LET sp == Sum(p)
      sq == Sum(q)
      terms == [i \in 1..Len(p) |-> LET dlt == RSub(R(p[i], sp), R(q[i], sq)) IN RMul(dlt, dlt)]
  IN RMul(<<1, 2>>, RSumTo(terms, Len(p)))
UnitEdges(n) == \A i \in 1..n : \A j \in 1..n : i # j =>
   BaryDist2([k \in 1..n |-> IF k = i THEN 1 ELSE 0], [k \in 1..n |-> IF k = j THEN 1 ELSE 0]) = <<1, 1>>
(* the chromatic reduction ignores the overall scale                                *)
ScaleFree(p, k) == BaryDist2(p, VScale(k, p)) = <<0, 1>>
=============================================================================
