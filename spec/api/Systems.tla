------------------------------ MODULE Systems ------------------------------
(* The lattice of stimulation systems shared by C02-C10, C12, C14, C15.       *)
(* A system is a record                                                       *)
(*   [A : d x n integer capture matrix, D : denominator of lb/ub/bl/targets,  *)
(*    lb, ub : n-vectors in units 1/D (ub[j] = INF: unbounded),                *)
(*    kk \in {"none","scalar","vector","matrix"}, Kn, DK : adaptation = Kn/DK, *)
(*    bk \in {"none","scalar","vector"}, bl : d-vector in units 1/D ]          *)
(* "Normalisation" folds K and baseline into (M, blN):                         *)
(*   relative capture (units 1/(D*DK)) = M xD + blN,  M = Kmat A, blN = Kmat bl*)
EXTENDS DOpt

(* Kn is always stored as a d x d integer matrix (TLC cannot mix value shapes in *)
(* one set); kk says how it is handed to the code: "none" (identity, K not      *)
(* passed), "scalar" (Kn[1][1]/DK), "vector" (diagonal), "matrix".              *)
KMat(s) == s.Kn
Diag(v) == [i \in 1..Len(v) |-> [j \in 1..Len(v) |-> IF i = j THEN v[i] ELSE 0]]
(* M and blN are computed once, when the record is built (TLC does not memoise) *)
NormM(s) == s.M
NormBl(s) == s.blN
(* relative capture of intensities x (units 1/D) in units 1/(D*DK)            *)
RelCapture(s, x) == VAdd(MatVec(NormM(s), x), NormBl(s))
(* absolute capture of intensities x (units 1/D) in units 1/D                 *)
AbsCapture(s, x) == MatVec(s.A, x)

Sys(A, D, lb, ub, kk, Kn, DK, bk, bl) ==
  [A |-> A, D |-> D, lb |-> lb, ub |-> ub, kk |-> kk, Kn |-> Kn, DK |-> DK, bk |-> bk, bl |-> bl,
   M |-> MatMul(Kn, A), blN |-> MatVec(Kn, bl)]
Plain(A, D, lb, ub) == Sys(A, D, lb, ub, "none", Identity(Len(A)), 1, "none", Vec(Len(A), 0))

Bounded(s) == \A j \in 1..Len(s.ub) : s.ub[j] # INF
NSrc(s) == Len(s.A[1])
NRec(s) == Len(s.A)

(* ---- matrix pools ---------------------------------------------------------- *)
ColsSorted(A) == LET T == Transpose(A)
                     Less(u, v) == \E k \in 1..Len(u) : (\A m \in 1..(k - 1) : u[m] = v[m]) /\ u[k] < v[k]
                 IN \A j \in 1..(Len(T) - 1) : Less(T[j], T[j + 1])
NoZeroCol(A) == \A j \in 1..Len(A[1]) : \E i \in 1..Len(A) : A[i][j] # 0
AllMats(d, n, vals) == {A \in [1..d -> [1..n -> vals]] : NoZeroCol(A) /\ ColsSorted(A) /\ Rank(A) = Min2(d, n)}

(* hand-picked systems (named after their role) *)
A22 == <<<<2, 1>>, <<1, 3>>>>
A23 == <<<<3, 1, 0>>, <<0, 1, 2>>>>
A23b == <<<<1, 2, 3>>, <<3, 2, 1>>>>
A24 == <<<<3, 2, 1, 0>>, <<0, 1, 2, 3>>>>
A33 == <<<<3, 1, 0>>, <<1, 2, 1>>, <<0, 1, 3>>>>
A34 == <<<<3, 1, 0, 1>>, <<1, 2, 1, 0>>, <<0, 1, 3, 2>>>>
A32 == <<<<2, 0>>, <<1, 1>>, <<0, 3>>>>
A21 == <<<<2>>, <<1>>>>
A31 == <<<<2>>, <<1>>, <<3>>>>
A12 == <<<<1, 2>>>>
A11 == <<<<2>>>>
A13 == <<<<1, 2, 3>>>>
Picked == {A22, A23, A23b, A24, A33, A34}
PickedAll == Picked \cup {A32, A21, A31, A12, A11, A13}

(* adaptation variants for d receptors: <<kind, Kn, DK>>                        *)
KVariants(d) ==
  {<<"none", Identity(d), 1>>, <<"scalar", MScale(2, Identity(d)), 1>>, <<"scalar", Identity(d), 2>>, <<"scalar", Identity(d), 3>>,
   <<"vector", Diag([i \in 1..d |-> i]), 2>>, <<"vector", Diag([i \in 1..d |-> IF i = 1 THEN 1 ELSE 2]), 3>>,
   <<"matrix", [i \in 1..d |-> [j \in 1..d |-> IF i = j THEN 2 ELSE IF j = i + 1 THEN 1 ELSE 0]], 2>>,
   <<"matrix", [i \in 1..d |-> [j \in 1..d |-> IF i = j THEN 2 ELSE IF j = i + 1 THEN -1 ELSE 0]], 2>>}
KVariantsPos(d) == {k \in KVariants(d) : k[1] # "matrix" \/ \A i \in 1..d : \A j \in 1..d : k[2][i][j] >= 0}
(* baseline variants in units 1/D (D = 4): none, scalar 1/2, vector            *)
BVariants(d) == {<<"none", Vec(d, 0)>>, <<"scalar", Vec(d, 2)>>, <<"vector", [i \in 1..d |-> 2 * i - 1]>>}

(* bound variants (units 1/D, D = 4) for n sources                              *)
BoundVariants(n) ==
  {<<Vec(n, 0), Vec(n, 4)>>, <<Vec(n, 0), Vec(n, 8)>>,
   <<[j \in 1..n |-> IF j = 1 THEN 2 ELSE 0], Vec(n, 4)>>,
   <<Vec(n, 2), [j \in 1..n |-> IF j % 2 = 1 THEN 8 ELSE 4]>>,
   <<Vec(n, 1), [j \in 1..n |-> 4 + j]>>}
UnboundedVariants(n) == {<<Vec(n, 0), Vec(n, INF)>>, <<[j \in 1..n |-> IF j = 1 THEN 2 ELSE 0], Vec(n, INF)>>}

(* sub-lattices *)
SysMatrix(d, n, vals) == {Plain(A, 4, Vec(n, 0), Vec(n, 4)) : A \in AllMats(d, n, vals)}
SysBoundsOf(A) == {Plain(A, 4, bv[1], bv[2]) : bv \in BoundVariants(Len(A[1]))}
SysUnbOf(A) == {Plain(A, 4, bv[1], bv[2]) : bv \in UnboundedVariants(Len(A[1]))}
(* "odd" systems: non-dyadic everything (D = 10, K = 1/7 or (1/7, 3/7, ..), baseline tenths), *)
(* so that no product in the implementation is exact in binary floating point                  *)
SysOddOf(A, unb) ==
  LET d == Len(A)
      n == Len(A[1])
      lbs == {[j \in 1..n |-> IF j = 1 THEN 1 ELSE 3], [j \in 1..n |-> 2 * j - 1], Vec(n, 0)}
      ubf == [j \in 1..n |-> IF unb THEN INF ELSE 7 + 3 * j]
  IN {Sys(A, 10, lb, ubf, kv[1], kv[2], 7, bv[1], bv[2]) :
        lb \in lbs,
        kv \in {<<"scalar", Identity(d)>>, <<"vector", Diag([i \in 1..d |-> 2 * i - 1])>>},
        bv \in {<<"none", Vec(d, 0)>>, <<"vector", [i \in 1..d |-> 4 * i - 1]>>}}
SysKBOf(A, lb, ub, KV) == {Sys(A, 4, lb, ub, kv[1], kv[2], kv[3], bv[1], bv[2]) : kv \in KV, bv \in BVariants(Len(A))}
=============================================================================
