------------------------------ MODULE Underdet ------------------------------
(* lsq_linear_underdetermined / ReceptorEstimator.fit_underdetermined.        *)
(* Feasible set: S_b = { x in box : K(Ax + baseline) = b }  (in-gamut target). *)
(* Secondary objectives (underdetermined_opt):                                 *)
(*   'min' / 'max' : smallest / largest total intensity        (LP, vertex)   *)
(*   number v      : total intensity closest to v              (clamp)        *)
(*   'l2'          : smallest Euclidean norm                   (QP)           *)
(*   'var'         : smallest variance across sources          (QP)           *)
(*   vector x0     : intensities closest to x0                 (QP)           *)
(*   (opt, idcs)   : the objective restricted to the sources idcs; modelled    *)
(*                   for 'min' / 'max' with idcs = the first two sources       *)
EXTENDS LsqLinear

IdN(n) == Identity(n)
VarQ(n) == [i \in 1..n |-> [j \in 1..n |-> IF i = j THEN n - 1 ELSE -1]]     \* n * (I - 11'/n)

UnderRecord(s, b, x0, v) ==
  LET M == NormM(s)
      r == TargetR(s, b)
      n == Len(M[1])
      V == SolVerts(M, r, s.lb, s.ub)
      mn == MinSumVert(V)
      mx == MaxSumVert(V)
      l2 == QPEq(IdN(n), Vec(n, 0), M, r, s.lb, s.ub)
      vr == QPEq(VarQ(n), Vec(n, 0), M, r, s.lb, s.ub)
      vc == QPEq(IdN(n), VScale(-1, x0), M, r, s.lb, s.ub)
  IN [b |-> b, nverts |-> Cardinality(V),
      minsum |-> SumOf(mn), maxsum |-> SumOf(mx),
      minsub |-> MinSubSum(V, {1, 2}), maxsub |-> MaxSubSum(V, {1, 2}),
      xmin |-> mn, xmax |-> mx,
      (* total intensity closest to v (v in the units of x): clamp *)
      numsum |-> IF RLt(RInt(v), SumOf(mn)) THEN SumOf(mn) ELSE IF RLt(SumOf(mx), RInt(v)) THEN SumOf(mx) ELSE RInt(v),
      v |-> v, x0 |-> x0,
      l2 |-> [x |-> l2.x, den |-> l2.den], var |-> [x |-> vr.x, den |-> vr.den], vec |-> [x |-> vc.x, den |-> vc.den],
      var_unique |-> MatVec(M, Vec(n, 1)) # Vec(Len(M), 0),
      (* definitional checks on the lattice *)
      ok |-> /\ QPNoVertexBetter(IdN(n), Vec(n, 0), l2, V)
             /\ QPNoVertexBetter(VarQ(n), Vec(n, 0), vr, V)
             /\ QPNoVertexBetter(IdN(n), VScale(-1, x0), vc, V)
             /\ MatVec(M, l2.x) = VScale(l2.den, r) /\ MatVec(M, vr.x) = VScale(vr.den, r) /\ MatVec(M, vc.x) = VScale(vc.den, r)
             /\ RLeq(SumOf(mn), <<Sum(l2.x), l2.den>>) /\ RLeq(<<Sum(l2.x), l2.den>>, SumOf(mx))]
=============================================================================
