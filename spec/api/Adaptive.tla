------------------------------ MODULE Adaptive ------------------------------
(* lsq_linear_adaptive / ReceptorEstimator.fit_adaptive.                     *)
(* Targets B_k (total capture, units 1/S); intensity direction               *)
(*   N_k = nu0 / sum(nu0) * sum(B_k),   chroma offset R_k = B_k - N_k.        *)
(* The fit looks for scales (s0, s1) >= 0 and in-bound intensities with       *)
(*   K(A x_k + bl) = s0 N_k + s1 R_k      for every sample k,                 *)
(* i.e. (s0, s1) in the polygon F = { s : s0 N_k + s1 R_k in gamut, all k }.  *)
(* 'unity': the point of F closest (weights w) to (1, 1); 'max': the point    *)
(* of F with the largest w0 s0 + w1 s1.  Everything is exact: each facet of   *)
(* the gamut zonotope and each sample give one strip a s0 + b s1 in [lo, hi]. *)
EXTENDS Convex

(* strips, scaled by L0 = sum(nu0) to stay in integers *)
Strips(s, Bs, nu0) ==
  LET M == NormM(s)
      F == ZonoFacets(M, s.lb, s.ub)
      L0 == Sum(nu0)
  IN UNION {{[a |-> Dot(f.nu, VScale(Sum(Bs[k]), nu0)),
              b |-> Dot(f.nu, VSub(VScale(L0, Bs[k]), VScale(Sum(Bs[k]), nu0))),
              lo |-> L0 * (f.lo + Dot(f.nu, NormBl(s))),
              hi |-> L0 * (f.hi + Dot(f.nu, NormBl(s)))] : f \in F} : k \in 1..Len(Bs)}
        \cup {[a |-> 1, b |-> 0, lo |-> 0, hi |-> INF], [a |-> 0, b |-> 1, lo |-> 0, hi |-> INF]}

(* a point of the (s0, s1) plane as <<x, y>> of rationals *)
InStrip(t, p) ==
  LET v == RAdd(RMul(RInt(t.a), p[1]), RMul(RInt(t.b), p[2]))
  IN RLeq(RInt(t.lo), v) /\ (t.hi = INF \/ RLeq(v, RInt(t.hi)))
Feasible(T, p) == \A t \in T : InStrip(t, p)

(* boundary lines a x + b y = c of the strips *)
Lines(T) == {[a |-> t.a, b |-> t.b, c |-> t.lo] : t \in T} \cup {[a |-> t.a, b |-> t.b, c |-> t.hi] : t \in {u \in T : u.hi # INF}}
Meet(l1, l2) == LET dt == l1.a * l2.b - l2.a * l1.b
                IN IF dt = 0 THEN <<>> ELSE <<R(l1.c * l2.b - l2.c * l1.b, dt), R(l1.a * l2.c - l2.a * l1.c, dt)>>
VerticesOf(T) == {p \in {Meet(l1, l2) : l1 \in Lines(T), l2 \in Lines(T)} : p # <<>> /\ Feasible(T, p)}

(* 'max' *)
Lin(w, p) == RAdd(RMul(RInt(w[1]), p[1]), RMul(RInt(w[2]), p[2]))
MaxPoint(T, w) == LET V == VerticesOf(T) IN CHOOSE p \in V : \A q \in V : RLeq(Lin(w, q), Lin(w, p))

(* strips reduced to lowest terms (keeps the rationals below small) *)
RedStrip(t) == LET g == Gcd(Gcd(t.a, t.b), Gcd(t.lo, IF t.hi = INF THEN 0 ELSE t.hi))
               IN IF g <= 1 THEN t ELSE [a |-> t.a \div g, b |-> t.b \div g, lo |-> t.lo \div g, hi |-> IF t.hi = INF THEN INF ELSE t.hi \div g]

(* feasibility of a lattice point (i/8, j/8) in pure integer arithmetic *)
GridFeasible(T, i, j) == \A t \in T : 8 * t.lo <= t.a * i + t.b * j /\ (t.hi = INF \/ t.a * i + t.b * j <= 8 * t.hi)

(* Homogeneity of the strips.  For targets with the SAME intensity direction and the chroma offset multiplied by m,      *)
(*   B_k(m) = N_k + m R_k   (written with the common factor L0 = sum(nu0):  L0 B_k(m) = sum(B_k) nu0 + m (L0 B_k - sum(B_k) nu0)), *)
(* every facet strip keeps a, lo, hi and has b multiplied by m: the feasible polygon is stretched by 1/m along s1.       *)
(* The harness uses this law (checked below on integer instances) to derive the exact strips of nearly achromatic        *)
(* target sets (m = 2^-12), whose optimal chroma scale is in the thousands.                                              *)
ChromaScaled(Bs, nu0, m) ==
  [k \in 1..Len(Bs) |-> VAdd(VScale(Sum(Bs[k]), nu0), VScale(m, VSub(VScale(Sum(nu0), Bs[k]), VScale(Sum(Bs[k]), nu0))))]
AxisStrips == {[a |-> 1, b |-> 0, lo |-> 0, hi |-> INF], [a |-> 0, b |-> 1, lo |-> 0, hi |-> INF]}
StripHomogeneity(s, Bs, nu0, m) ==
  LET L0 == Sum(nu0)
  IN Strips(s, ChromaScaled(Bs, nu0, m), nu0) \ AxisStrips
       = {[a |-> L0 * t.a, b |-> m * L0 * t.b, lo |-> t.lo, hi |-> t.hi] : t \in Strips(s, Bs, nu0) \ AxisStrips}

AdaptiveRecord(s, Bs, nu0, w) ==
  LET T == {RedStrip(t) : t \in Strips(s, Bs, nu0)}
      FG == {<<i, j>> \in (0..32) \X (0..32) : GridFeasible(T, i, j)}
  IN [Bs |-> Bs, nu0 |-> nu0, w |-> w,
      strips |-> T,
      all_in |-> GridFeasible(T, 8, 8),
      fgrid |-> FG,                       \* feasible scale pairs in eighths
      (* (1,1) is feasible iff every target is in the gamut *)
      ok |-> (GridFeasible(T, 8, 8) <=> \A k \in 1..Len(Bs) : ClassOf(s, Bs[k]) # "exterior"),
      homog |-> \A m \in 1..3 : StripHomogeneity(s, Bs, nu0, m)]
=============================================================================
