------------------------------ MODULE Project ------------------------------
(* dreye.api.project: proj_B_to_hull, alpha_for_B_with_P / B_with_P,         *)
(* proj_P_to_simplex, over exact hull facets of integer point clouds.        *)
EXTENDS DGeom

(* positive multiple alpha with alpha*b on the hull boundary (origin strictly  *)
(* inside): alpha = min over facets with nu.b > 0 of h / (nu.b)                *)
AlphaExact(F, b) ==
  LET cand == {R(f.h, Dot(f.nu, b)) : f \in {g \in F : Dot(g.nu, b) > 0}}
  IN IF cand = {} THEN <<INF, 1>> ELSE CHOOSE m \in cand : \A o \in cand : RLeq(m, o)

(* nearest point, characterised (not computed): x in C and (b - x).(v - x) <= 0 *)
(* for every vertex v (variational inequality).  Values are integers on scale S: *)
(* b, v are lattice integers, x is the logged fixed point round(x*S).            *)
NearestOK(F, V, b, x, S, tol) ==
  /\ \A f \in F : Dot(f.nu, x) <= f.h * S + tol * SumTo([i \in 1..Len(f.nu) |-> Abs(f.nu[i])], Len(f.nu))
  /\ \A v \in V : Dot(VSub(VScale(S, b), x), VSub(VScale(S, v), x)) <= tol * S * (1 + SumTo([i \in 1..Len(v) |-> Abs(v[i]) + Abs(b[i])], Len(v)))

(* exact slice of conv(P) with the plane sum(x) = c: hull of the intersection    *)
(* points of all segments [p, q], sum(p) <= c <= sum(q); points as [num, den]     *)
SlicePts(P, c) ==
  {LET sp == Sum(pq[1])
       sq == Sum(pq[2])
   IN IF sp = sq THEN [num |-> pq[1], den |-> 1]
      ELSE (* p + t (q - p), t = (c - sp)/(sq - sp) *)
           PNorm([i \in 1..Len(pq[1]) |-> pq[1][i] * (sq - sp) + (c - sp) * (pq[2][i] - pq[1][i])], sq - sp)
   : pq \in {pp \in P \X P : Sum(pp[1]) <= c /\ c <= Sum(pp[2]) /\ (Sum(pp[1]) < Sum(pp[2]) \/ pp[1] = pp[2])}}
(* support function of the slice in direction u, as a rational                     *)
SliceSupport(I, u) ==
  LET vals == {R(Dot(u, p.num), p.den) : p \in I}
  IN CHOOSE m \in vals : \A o \in vals : RLeq(o, m)
=============================================================================
