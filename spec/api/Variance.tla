------------------------------ MODULE Variance ------------------------------
(* lsq_linear_minimize / ReceptorEstimator.minimize_variance: two stages.     *)
(*   Stage 1: ordinary bounded weighted least squares -> best prediction q*   *)
(*   Stage 2: minimise sum_j eps_j x_j^2 over { x in box : M x = q* }          *)
(*            (the set whose error does not exceed the best achievable error   *)
(*            is exactly the set of least-squares minimisers)                  *)
(* eps_j = sum_i Eps'_ij with Eps' the variance matrix propagated through K    *)
(* (elementwise-squared K); "heteroscedastic": Eps' = (K A)^2.                 *)
EXTENDS Underdet

Sq(M) == [i \in 1..Len(M) |-> [j \in 1..Len(M[1]) |-> M[i][j] * M[i][j]]]
ColSums(E) == [j \in 1..Len(E[1]) |-> SumTo([i \in 1..Len(E) |-> E[i][j]], Len(E))]
(* propagated variance matrix (times DK^2)                                       *)
PropEps(s, E) == MatMul(Sq(s.Kn), E)
HeteroEps(s) == Sq(NormM(s))
EpsVec(s, ek, E) == ColSums(IF ek = "hetero" THEN HeteroEps(s) ELSE PropEps(s, E))
DiagQ(e) == [i \in 1..Len(e) |-> [j \in 1..Len(e) |-> IF i = j THEN e[i] ELSE 0]]

(* stage 2 over { M x = q/den }: solve for y = den * x in the box scaled by den  *)
(* q/den is first reduced to lowest terms (keeps the determinants small)          *)
Red(c) == LET p == PNorm(c.q, c.den) IN [q |-> p.num, den |-> p.den]
Stage2(s, c, eps) == QPEq(DiagQ(eps), Vec(Len(eps), 0), NormM(s), c.q, VScale(c.den, s.lb), VScale(c.den, s.ub))
(* with a requested total intensity L1 (units 1/D): extra equality row 1'x = L1c  *)
Stage2L1(s, c, eps, L1c) ==
  QPEq(DiagQ(eps), Vec(Len(eps), 0), NormM(s) \o <<Vec(Len(eps), 1)>>, c.q \o <<c.den * L1c>>,
       VScale(c.den, s.lb), VScale(c.den, s.ub))

VarRecord(s, b, ek, E) ==
  LET c0 == FitGaussian(s, Vec(Len(s.A), 1), b)
      c == [q |-> Red(c0).q, den |-> Red(c0).den, x |-> c0.x, xden |-> c0.den]
      eps == EpsVec(s, ek, E)
      exact == c.den <= 12          \* magnitude guard: stage 2 is solved exactly only for simple stage-1 optima
  IN IF ~exact
     THEN [b |-> b, zero |-> ZeroError(s, b, c0), q |-> c.q, qden |-> c.den, x1 |-> c.x, x1den |-> c.xden,
           eps |-> eps, exact |-> FALSE, x2 |-> <<>>, x2den |-> 1, nverts |-> 0, ok |-> TRUE]
     ELSE
       LET st2 == Stage2(s, c, eps)
           V == SolVerts(NormM(s), c.q, VScale(c.den, s.lb), VScale(c.den, s.ub))
       IN [b |-> b, zero |-> ZeroError(s, b, c0), q |-> c.q, qden |-> c.den, x1 |-> c.x, x1den |-> c.xden,
           eps |-> eps, exact |-> TRUE,
           x2 |-> st2.x, x2den |-> st2.den * c.den,         \* x = x2 / x2den (units 1/D)
           nverts |-> Cardinality(V),
           ok |-> /\ MatVec(NormM(s), st2.x) = VScale(st2.den, c.q)
                  /\ QPNoVertexBetter(DiagQ(eps), Vec(Len(eps), 0), st2, V)
                  (* never larger than the variance of the ordinary fit (x1 is feasible for stage 2) *)
                  /\ (st2.den <= 300 /\ c.xden <= 300 =>
                        RLeq(R(QPObj2(DiagQ(eps), Vec(Len(eps), 0), st2.x, st2.den), st2.den * st2.den * c.den * c.den),
                             R(QPObj2(DiagQ(eps), Vec(Len(eps), 0), c.x, c.xden), c.xden * c.xden)))]
=============================================================================
