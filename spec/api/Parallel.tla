----------------------------- MODULE Parallel -----------------------------
(* dreye.api.optimize.parallel.batched_iteration + lsq_linear._solve_problem *)
(* (and the loop of lsq_linear_minimize) as a state machine.                *)
(*                                                                          *)
(* A fitting call receives N target rows and a batch-size request.  Rows    *)
(* are solved in groups; the stacked problem of a group is block-diagonal,  *)
(* so for a separable objective the result of each row is F[row] no matter  *)
(* which rows share its group.  The result array `written` must in the end  *)
(* hold F[row] for every row, each written exactly once, and zero-padded    *)
(* positions must never be scattered into it.                               *)
(*                                                                          *)
(* Two machines share the variables:                                        *)
(*   GenericNext : any partition schedule (what a correct refactoring may do)*)
(*   CodeNext    : the schedule of the implementation (full batches in      *)
(*                 order, then one zero-padded batch)                       *)
(* plus named deviations of the code as read (see DESIGN.md section 6):     *)
(*   UnboundIdx     : batch_size > N, the loop variable is never bound      *)
(*   SolveCoupledMax: one max() over the whole stack couples the rows       *)
EXTENDS Integers, Sequences, FiniteSets, TLC

CONSTANTS MaxN,        \* largest number of rows explored
          Deviations   \* BOOLEAN: include the code's deviations

VARIABLES N,        \* number of target rows of this call
          req,      \* requested batch size: 0 = "full", k >= 1
          bs,       \* resolved batch size (0 before resolution)
          idx,      \* next batch index of the code schedule
          written,  \* function row -> number of times the row was scattered
          val,      \* function row -> "F" (own optimum) | "coupled" | "unset"
          padded,   \* number of zero-padded rows solved so far
          pc        \* "start" | "run" | "done" | "failed"
vars == <<N, req, bs, idx, written, val, padded, pc>>

Rows == 0..(N - 1)

Init == /\ N \in 1..MaxN
        /\ req \in 0..(MaxN + 2)
        /\ bs = 0 /\ idx = 0 /\ padded = 0
        /\ written = [r \in 0..(MaxN - 1) |-> 0]
        /\ val = [r \in 0..(MaxN - 1) |-> "unset"]
        /\ pc = "start"

(* get_batch_size: None -> 1 (not modelled: same as 1), "full" -> N, k -> k *)
Resolve == /\ pc = "start"
           /\ bs' = IF req = 0 THEN N ELSE req
           /\ pc' = "run"
           /\ UNCHANGED <<N, req, idx, written, val, padded>>

Scatter(rows, v) ==
  /\ written' = [r \in DOMAIN written |-> IF r \in rows THEN written[r] + 1 ELSE written[r]]
  /\ val' = [r \in DOMAIN val |-> IF r \in rows THEN v ELSE val[r]]

(* --- the implementation's schedule ---------------------------------------- *)
FullBatch == /\ pc = "run"
             /\ (idx + 1) * bs <= N
             /\ Scatter({r \in Rows : idx * bs <= r /\ r < (idx + 1) * bs}, "F")
             /\ idx' = idx + 1
             /\ UNCHANGED <<N, req, bs, padded, pc>>

LastBatch == /\ pc = "run"
             /\ (idx + 1) * bs > N /\ idx * bs < N
             /\ Scatter({r \in Rows : idx * bs <= r}, "F")
             /\ padded' = padded + ((idx + 1) * bs - N)
             /\ idx' = idx + 1
             /\ UNCHANGED <<N, req, bs, pc>>

Finish == /\ pc = "run"
          /\ idx * bs >= N
          /\ pc' = "done"
          /\ UNCHANGED <<N, req, bs, idx, written, val, padded>>

(* --- deviations of the code as read ----------------------------------------- *)
(* batched_iteration: `for idx in range(N // bs)` never runs when bs > N, then   *)
(* `yield (idx + 1, ...)` raises UnboundLocalError                               *)
UnboundIdx == /\ Deviations
              /\ pc = "run" /\ bs > N /\ idx = 0
              /\ pc' = "failed"
              /\ UNCHANGED <<N, req, bs, idx, written, val, padded>>
(* a single max() over the stacked rows: rows whose own optimum is below the      *)
(* batch maximum get an arbitrary feasible value                                  *)
SolveCoupledMax == /\ Deviations
                   /\ pc = "run" /\ bs > 1
                   /\ (idx + 1) * bs <= N
                   /\ Scatter({r \in Rows : idx * bs <= r /\ r < (idx + 1) * bs}, "coupled")
                   /\ idx' = idx + 1
                   /\ UNCHANGED <<N, req, bs, padded, pc>>

CodeNext == Resolve \/ FullBatch \/ LastBatch \/ Finish \/ UnboundIdx \/ SolveCoupledMax
CodeSpec == Init /\ [][CodeNext]_vars /\ WF_vars(CodeNext)

(* --- any correct schedule ------------------------------------------------------ *)
GenericSolve == /\ pc = "run"
                /\ \E rows \in (SUBSET {r \in Rows : written[r] = 0}) \ {{}} :
                     /\ Cardinality(rows) <= bs
                     /\ Scatter(rows, "F")
                     /\ padded' = padded + (bs - Cardinality(rows))
                /\ UNCHANGED <<N, req, bs, idx, pc>>
GenericFinish == /\ pc = "run" /\ \A r \in Rows : written[r] > 0
                 /\ pc' = "done"
                 /\ UNCHANGED <<N, req, bs, idx, written, val, padded>>
GenericNext == Resolve \/ GenericSolve \/ GenericFinish
GenericSpec == Init /\ [][GenericNext]_vars

(* --- properties ------------------------------------------------------------------ *)
TypeOK == /\ N \in 1..MaxN /\ req \in 0..(MaxN + 2) /\ bs \in 0..(MaxN + 2)
          /\ idx \in 0..MaxN /\ pc \in {"start", "run", "done", "failed"}
NeverTwice == \A r \in DOMAIN written : written[r] <= 1
OnlyRealRows == \A r \in DOMAIN written : r >= N => written[r] = 0
DoneMeansAll == pc = "done" => \A r \in Rows : written[r] = 1 /\ val[r] = "F"
NoFailure == pc # "failed"
(* the batch size is only a performance setting: the final result equals what   *)
(* batch size one produces (every row its own optimum)                           *)
BatchInvariant == pc = "done" => \A r \in Rows : val[r] = "F"
(* progress of the code schedule: covered rows = min(idx*bs, N)                  *)
Covered == pc = "run" => \A r \in Rows : (written[r] = 1) <=> (r < idx * bs)
Terminates == <>(pc \in {"done", "failed"})
=============================================================================
