----------------------------- MODULE LsqLinear -----------------------------
(* dreye.api.optimize.lsq_linear and ReceptorEstimator.fit*, exact.          *)
(*                                                                           *)
(* Parameter normalisation (prepare_parameters_for_linear):                  *)
(*     A' = K A,  bl' = K bl,  target t = b - bl',  weights inside the square *)
(*     Obj(x) = || w o (A' x - t) ||^2 ,  lb <= x <= ub                       *)
(* In lattice units (Systems.tla): M = NormM(s), t = b - NormBl(s), all in    *)
(* units 1/(D*DK) for captures and 1/D for intensities.                       *)
EXTENDS Convex

W2(w) == [i \in 1..Len(w) |-> w[i] * w[i]]

FitGaussian(s, w, b) == BoxLsq(NormM(s), W2(w), TargetR(s, b), s.lb, s.ub)

(* Definition of the property, restricted to the lattice:                      *)
(*  (1) x* is in the box, (2) no box corner / midpoint lattice point is better *)
(*  (3) variational inequality at every corner (<=> optimal, convexity)        *)
InBox(s, c) == \A j \in 1..Len(s.lb) : s.lb[j] * c.den <= c.x[j] /\ (s.ub[j] = INF \/ c.x[j] <= s.ub[j] * c.den)
ProbePoints(s, span) ==
  LET ubt == TruncUb(s, span)
      n == Len(s.lb)
  IN {[j \in 1..n |-> IF a[j] = 0 THEN s.lb[j] ELSE IF a[j] = 1 THEN ubt[j] ELSE (s.lb[j] + ubt[j]) \div 2] : a \in [1..n -> {0, 1, 2}]}
FitIsOptimal(s, w, b, c, span) ==
  /\ InBox(s, c)
  /\ LsqVI(c, s.lb, s.ub, span)
  /\ (c.den <= 60 => LsqNoBetterOn(NormM(s), W2(w), TargetR(s, b), c, ProbePoints(s, span)))

(* zero error exactly when the target is reproducible                            *)
ZeroError(s, b, c) == c.q = VScale(c.den, TargetR(s, b))
ZeroIffInGamut(s, b, c) == ZeroError(s, b, c) <=> Reproducible(s, b)

(* one fitted target as emitted to the harness, with the lattice-definition      *)
(* verdicts computed from the same optimum                                       *)
FitRecord(s, w, b, span) ==
  LET c == FitGaussian(s, w, b)
  IN [b |-> b, w |-> w, x |-> c.x, q |-> c.q, den |-> c.den,
      unique |-> LsqUnique(NormM(s), c, s.lb, s.ub),
      zero |-> ZeroError(s, b, c),
      below |-> \E i \in 1..Len(b) : TargetR(s, b)[i] < 0,
      asg |-> c.asg,
      optimal |-> FitIsOptimal(s, w, b, c, span),
      zeroiff |-> ZeroIffInGamut(s, b, c)]
=============================================================================
