------------------------------- MODULE Decomp -------------------------------
(* lsq_linear_decomposition / ReceptorEstimator.fit_decomposition: the        *)
(* alternating optimisation as a state machine, shaped like the loop:         *)
(*   Init -> ( XStep -> PStep+Eval -> [StopF | StopX | Continue] )* ->         *)
(*           [MaxIter] -> FinalX -> ( FinalP iff subsampled ) -> Return        *)
(* The loss after each PStep is an integer (fixed point); the procedure never  *)
(* increases it (each half step is a global minimisation of a convex problem   *)
(* that has the previous iterate as a feasible point).                         *)
EXTENDS Integers, Sequences, TLC

CONSTANTS MaxIter,     \* max_iter of the call
          Subsample,   \* BOOLEAN
          MaxLoss      \* bound on the (abstract) loss values explored

VARIABLES phase, iter, loss, prev, reason
vars == <<phase, iter, loss, prev, reason>>

Init == phase = "init" /\ iter = 0 /\ loss = -1 /\ prev = -1 /\ reason = "none"

XStep == /\ phase \in {"init", "continue"} /\ iter < MaxIter
         /\ phase' = "x" /\ UNCHANGED <<iter, loss, prev, reason>>
(* P step and evaluation of the loss; the new loss never exceeds the old one *)
Eval == /\ phase = "x"
        /\ \E v \in 0..MaxLoss : (loss >= 0 => v <= loss) /\ loss' = v
        /\ prev' = loss
        /\ phase' = "eval" /\ UNCHANGED <<iter, reason>>
(* stop tests are only made from the second iteration on (n > 0) *)
StopF == /\ phase = "eval" /\ iter > 0 /\ phase' = "stopped" /\ reason' = "ftol" /\ UNCHANGED <<iter, loss, prev>>
StopX == /\ phase = "eval" /\ iter > 0 /\ phase' = "stopped" /\ reason' = "xtol" /\ UNCHANGED <<iter, loss, prev>>
Continue == /\ phase = "eval" /\ iter' = iter + 1
            /\ phase' = (IF iter + 1 < MaxIter THEN "continue" ELSE "exhausted") /\ UNCHANGED <<loss, prev, reason>>
MaxIterWarn == /\ phase = "exhausted" /\ phase' = "stopped" /\ reason' = "max_iter" /\ UNCHANGED <<iter, loss, prev>>
FinalX == /\ phase = "stopped" /\ phase' = "finalx" /\ UNCHANGED <<iter, loss, prev, reason>>
FinalP == /\ phase = "finalx" /\ Subsample /\ phase' = "finalp" /\ UNCHANGED <<iter, loss, prev, reason>>
Return == /\ (phase = "finalp" \/ (phase = "finalx" /\ ~Subsample)) /\ phase' = "done" /\ UNCHANGED <<iter, loss, prev, reason>>

Next == XStep \/ Eval \/ StopF \/ StopX \/ Continue \/ MaxIterWarn \/ FinalX \/ FinalP \/ Return
Spec == Init /\ [][Next]_vars /\ WF_vars(Next)

TypeOK == /\ phase \in {"init", "x", "eval", "continue", "exhausted", "stopped", "finalx", "finalp", "done"}
          /\ iter \in 0..MaxIter /\ reason \in {"none", "ftol", "xtol", "max_iter"}
IterBound == iter <= MaxIter
ReasonSet == (phase \in {"stopped", "finalx", "finalp", "done"}) <=> reason # "none"
MaxIterMeansExhausted == reason = "max_iter" => iter = MaxIter
EarlyStopNotFirst == reason \in {"ftol", "xtol"} => iter >= 1
Descent == [][loss' # loss /\ loss >= 0 => loss' <= loss]_vars
FinalXAfterStop == [][phase' = "finalx" => phase = "stopped"]_vars
FinalPIffSubsample == [][phase' = "done" => (phase = "finalp" <=> Subsample)]_vars
Terminates == <>(phase = "done")
=============================================================================
