----------------------------- MODULE Capture -----------------------------
(* dreye.api.capture.calculate_capture, dreye.api.utils.integral and        *)
(* ReceptorEstimator.capture, in exact arithmetic.                          *)
(*                                                                          *)
(* Definition (what the documentation promises):                            *)
(*   capture(..., i, j) = trapezoid integral over the domain of             *)
(*                        signal_i(x) * filter_j(x)                         *)
(* Arrays are integer sequences; a domain array is given in units of 1/DX;  *)
(* a scalar step is the rational p/q.  Results are returned as integers     *)
(* together with the scale they have been multiplied with, so that on the   *)
(* lattice the floating point result times the scale is an exact integer.   *)
EXTENDS DNum

Prod(f, s) == [k \in 1..Len(f) |-> f[k] * s[k]]

(* twice the trapezoid integral of samples y on abscissae x                 *)
Trapz2(y, x) == SumTo([k \in 1..(Len(y) - 1) |-> (x[k + 1] - x[k]) * (y[k] + y[k + 1])], Len(y) - 1)
(* twice the trapezoid integral with unit step                              *)
TrapzUnit2(y) == SumTo([k \in 1..(Len(y) - 1) |-> y[k] + y[k + 1]], Len(y) - 1)
RectUnit(y) == Sum(y)

(* Definitional form: the integral of the piecewise-linear interpolant,     *)
(* written panel by panel as (width * mean height).  Kept separate from     *)
(* Trapz2 so that MC can assert the two agree.                               *)
RECURSIVE TrapzDef2(_, _, _)
TrapzDef2(y, x, k) == IF k >= Len(y) THEN 0
                      ELSE (x[k + 1] - x[k]) * y[k] + (x[k + 1] - x[k]) * y[k + 1] + TrapzDef2(y, x, k + 1)

(* One integral; `dom` is a sequence (array domain, units 1/DX) or <<>>    *)
(* (then step p/q with trapz flag).  Returns [scale, val]: val/scale is the *)
(* real value.                                                              *)
IntegralOf(y, dom, DX, p, q, trapz) ==
  IF dom # <<>> THEN [scale |-> 2 * DX, val |-> Trapz2(y, dom)]
  ELSE IF trapz THEN [scale |-> 2 * q, val |-> p * TrapzUnit2(y)]
  ELSE [scale |-> q, val |-> p * RectUnit(y)]

ScaleOf(dom, DX, q, trapz) == IF dom # <<>> THEN 2 * DX ELSE IF trapz THEN 2 * q ELSE q
ValOf(y, dom, p, trapz) == IF dom # <<>> THEN Trapz2(y, dom) ELSE IF trapz THEN p * TrapzUnit2(y) ELSE p * RectUnit(y)

(* Capture for the shape classes the implementation distinguishes.          *)
(*   F1/S1 : 1-D   F2/S2 : 2-D (rows = filters / signals)   F3/S3 : batch of 2-D *)
(* Result index order: (batch, signal i, filter j).                         *)
Cap11(f, s, dom, p, trapz) == ValOf(Prod(f, s), dom, p, trapz)
Cap12(f, S, dom, p, trapz) == [i \in 1..Len(S) |-> ValOf(Prod(f, S[i]), dom, p, trapz)]
Cap21(F, s, dom, p, trapz) == [j \in 1..Len(F) |-> ValOf(Prod(F[j], s), dom, p, trapz)]
Cap22(F, S, dom, p, trapz) == [i \in 1..Len(S) |-> [j \in 1..Len(F) |-> ValOf(Prod(F[j], S[i]), dom, p, trapz)]]
Cap32(FB, S, dom, p, trapz) == [b \in 1..Len(FB) |-> Cap22(FB[b], S, dom, p, trapz)]
Cap23(F, SB, dom, p, trapz) == [b \in 1..Len(SB) |-> Cap22(F, SB[b], dom, p, trapz)]
Cap33(FB, SB, dom, p, trapz) == [b \in 1..Len(FB) |-> Cap22(FB[b], SB[b], dom, p, trapz)]

CaptureOf(sc, F, S, dom, p, trapz) ==
  CASE sc = "11" -> Cap11(F, S, dom, p, trapz)
    [] sc = "12" -> Cap12(F, S, dom, p, trapz)
    [] sc = "21" -> Cap21(F, S, dom, p, trapz)
    [] sc = "22" -> Cap22(F, S, dom, p, trapz)
    [] sc = "32" -> Cap32(F, S, dom, p, trapz)
    [] sc = "23" -> Cap23(F, S, dom, p, trapz)
    [] sc = "33" -> Cap33(F, S, dom, p, trapz)

(* dreye.integral: the integral of every row of an array (trapezoid only)    *)
IntegralRows(sc, S, dom, p) ==
  CASE sc \in {"11", "21"} -> ValOf(S, dom, p, TRUE)
    [] sc \in {"12", "22", "32"} -> [i \in 1..Len(S) |-> ValOf(S[i], dom, p, TRUE)]
    [] sc \in {"23", "33"} -> [b \in 1..Len(S) |-> [i \in 1..Len(S[b]) |-> ValOf(S[b][i], dom, p, TRUE)]]

(* dx is the same as the explicit domain 0, dx, 2dx, ...                      *)
DxDomain(n, p) == [k \in 1..n |-> (k - 1) * p]

(* --- laws (checked by MC_C01Laws on pairs of inputs) -------------------- *)
LinearInSignal(f, s1, s2, a, b, dom, p, trapz) ==
  ValOf(Prod(f, VAdd(VScale(a, s1), VScale(b, s2))), dom, p, trapz)
    = a * ValOf(Prod(f, s1), dom, p, trapz) + b * ValOf(Prod(f, s2), dom, p, trapz)
LinearInFilter(f1, f2, s, a, b, dom, p, trapz) ==
  ValOf(Prod(VAdd(VScale(a, f1), VScale(b, f2)), s), dom, p, trapz)
    = a * ValOf(Prod(f1, s), dom, p, trapz) + b * ValOf(Prod(f2, s), dom, p, trapz)
DxIsDomain(y, p) == p * TrapzUnit2(y) = Trapz2(y, DxDomain(Len(y), p))
DefAgrees(y, x) == Trapz2(y, x) = TrapzDef2(y, x, 1)
=============================================================================
