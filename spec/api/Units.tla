------------------------------- MODULE Units -------------------------------
(* dreye.irr2flux / flux2irr.  The physical law:                            *)
(*   photon flux [mol m^-2 s^-1 nm^-1] = irradiance [W m^-2 nm^-1] * lambda[m] / (h c N_A)  *)
(* With lambda in nanometres and an SI prefix of 10^(-3 p) on the result    *)
(* (p = 0 '', 1 'milli', 2 'micro', 3 'nano'):                               *)
(*   flux = irr * lambda * 10^(3p - 9) / HCN                                 *)
(* HCN = h c N_A is a symbolic constant (substituted by the harness with     *)
(* the exact SI rational); a value is the pair [m, e, k]: m * 10^e * HCN^k.  *)
EXTENDS Integers, Sequences

Val(m, e, k) == [m |-> m, e |-> e, k |-> k]
(* irradiance given as integer multiples of 10^ue W/m^2/nm (ue = 0 plain / 'I', *)
(* ue = -2 for uW/cm^2/nm), wavelength as integer multiples of 10^we nm (we = 0  *)
(* for nm, 3 for um)                                                             *)
Irr2Flux(irr, ue, lam, we, p) == Val(irr * lam, ue + we + 3 * p - 9, -1)
Flux2Irr(flx, ue, lam, we, p) == Val(flx, ue + 9 + 3 * p, 1)        \* divided by lam: see FluxIrrDiv
(* flux2irr divides by the wavelength: m = flx / lam is not an integer in general, *)
(* so the value is kept as a fraction [n, d, e, k]                                  *)
Flux2IrrF(flx, ue, lam, we, p) == [n |-> flx, d |-> lam, e |-> ue + 9 - we + 3 * p, k |-> 1]

(* laws (identities between coefficient terms) *)
Linear(a, b, x, y, lam, p) ==
  Irr2Flux(a * x + b * y, 0, lam, 0, p).m = a * Irr2Flux(x, 0, lam, 0, p).m + b * Irr2Flux(y, 0, lam, 0, p).m
(* flux2irr(irr2flux(I)) = I : (I*lam*10^(3p-9)/HCN) * HCN * 10^(9-3p) / lam *)
Inverse(irr, lam, p) ==
  LET f == Irr2Flux(irr, 0, lam, 0, p)
      (* flux value expressed in prefixed units is f; converting back: multiply by 10^(-3p) first *)
      back == [n |-> f.m, d |-> lam, e |-> f.e - 3 * p + 9, k |-> f.k + 1]
  IN back.n = irr * back.d /\ back.e = 0 /\ back.k = 0
PrefixScales(irr, lam, p) == Irr2Flux(irr, 0, lam, 0, p).e = Irr2Flux(irr, 0, lam, 0, 0).e + 3 * p
UnitsAgree(irr, lam) ==      \* 100 uW/cm^2/nm = 1 W/m^2/nm ; 1 um = 1000 nm
  /\ Irr2Flux(100 * irr, -2, lam, 0, 0).m = 100 * Irr2Flux(irr, 0, lam, 0, 0).m
  /\ Irr2Flux(100 * irr, -2, lam, 0, 0).e = Irr2Flux(irr, 0, lam, 0, 0).e - 2
=============================================================================
