------------------------------ MODULE Domain ------------------------------
(* dreye.api.domain.equalize_domains (and arange_with_interval), exact.      *)
(* Domains are sequences of integers in units 1/DX (possibly unsorted,       *)
(* distinct points); sample arrays are integer sequences.  Results are       *)
(* rationals <<num, den>>.                                                    *)
EXTENDS DNum

DMin(d) == MinSeq(d)
DMax(d) == MaxSeq(d)
(* mean step of the sorted domain = (max - min) / (len - 1)                    *)
MeanStep(d) == R(DMax(d) - DMin(d), Len(d) - 1)

RECURSIVE RMaxTo(_, _)
RMaxTo(f, n) == IF n = 1 THEN f[1] ELSE RMax(f[n], RMaxTo(f, n - 1))

Overlap(ds) == [lo |-> MaxSeq([k \in 1..Len(ds) |-> DMin(ds[k])]),
                hi |-> MinSeq([k \in 1..Len(ds) |-> DMax(ds[k])]),
                step |-> RMaxTo([k \in 1..Len(ds) |-> MeanStep(ds[k])], Len(ds))]

AllEqual(ds) == \A k \in 1..Len(ds) : ds[k] = ds[1]

(* status: "same" (returned unchanged), "reject" (ValueError), "either" (overlap *)
(* shorter than one step: the property does not say), "interp"                    *)
Status(ds) ==
  LET o == Overlap(ds)
  IN IF AllEqual(ds) THEN "same"
     ELSE IF o.lo >= o.hi THEN "reject"
     ELSE IF RLt(RInt(o.hi - o.lo), o.step) THEN "either"
     ELSE "interp"

(* interval counts nearest to (hi - lo) / step; two candidates on an exact tie    *)
Counts(ds) ==
  LET o == Overlap(ds)
      ratio == RDiv(RInt(o.hi - o.lo), o.step)          \* >= 1
      fl == ratio[1] \div ratio[2]
      twice == RSub(RMul(RInt(2), ratio), RInt(2 * fl))  \* 2 * frac
  IN IF RLt(twice, RInt(1)) THEN {fl}
     ELSE IF RLt(RInt(1), twice) THEN {fl + 1}
     ELSE {fl, fl + 1}

(* grid point i (0-based) of m intervals, as a rational in units 1/DX             *)
GridPt(o, m, i) == RAdd(RInt(o.lo), R(i * (o.hi - o.lo), m))

(* sort a domain with its samples: sequence of <<x, y>> ascending in x            *)
RECURSIVE SortPairs(_)
SortPairs(S) == IF S = {} THEN <<>>
                ELSE LET m == CHOOSE p \in S : \A q \in S : p[1] <= q[1]
                     IN <<m>> \o SortPairs(S \ {m})
Sorted(d, y) == SortPairs({<<d[k], y[k]>> : k \in 1..Len(d)})

(* linear interpolation of (d, y) at rational g; 0 outside the domain             *)
Interp(d, y, g) ==
  LET P == Sorted(d, y)
      n == Len(P)
  IN IF RLt(g, RInt(P[1][1])) \/ RLt(RInt(P[n][1]), g) THEN <<0, 1>>
     ELSE LET k == CHOOSE k \in 1..(n - 1) : RLeq(RInt(P[k][1]), g) /\ RLeq(g, RInt(P[k + 1][1]))
          IN RAdd(RInt(P[k][2]),
                  RDiv(RMul(RInt(P[k + 1][2] - P[k][2]), RSub(g, RInt(P[k][1]))), RInt(P[k + 1][1] - P[k][1])))

InterpAll(ds, ys, m) ==
  LET o == Overlap(ds)
  IN [k \in 1..Len(ds) |-> [i \in 1..(m + 1) |-> Interp(ds[k], ys[k], GridPt(o, m, i - 1))]]
Grid(ds, m) == LET o == Overlap(ds) IN [i \in 1..(m + 1) |-> GridPt(o, m, i - 1)]

(* trapezoid integral of the product of two interpolated arrays on the uniform grid, *)
(* in real units: step = (hi-lo)/(m*DX)                                              *)
RECURSIVE RSumSeq(_, _)
RSumSeq(f, n) == IF n = 0 THEN <<0, 1>> ELSE RAdd(f[n], RSumSeq(f, n - 1))
CaptureOnGrid(ds, u, v, m, DX) ==
  LET o == Overlap(ds)
      pr == [i \in 1..(m + 1) |-> RMul(u[i], v[i])]
      tw == RSumSeq([i \in 1..m |-> RAdd(pr[i], pr[i + 1])], m)
  IN RMul(tw, R(o.hi - o.lo, 2 * m * DX))
=============================================================================
