"""Lattice systems (Systems.tla records) -> floats / real ReceptorEstimator objects."""
from fractions import Fraction

import numpy as np

INF = 1000000


def K_of(s):
    """(kind, python value or None) as handed to the code."""
    kk = s["kk"]
    Kn = np.asarray(s["Kn"], dtype=float)
    DK = s["DK"]
    if kk == "none":
        return None
    if kk == "scalar":
        return Kn[0, 0] / DK
    if kk == "vector":
        return np.diag(Kn) / DK
    return Kn / DK


def bl_of(s):
    bk = s["bk"]
    bl = np.asarray(s["bl"], dtype=float) / s["D"]
    if bk == "none":
        return None
    if bk == "scalar":
        return float(bl[0])
    return bl


def floats(s):
    A = np.asarray(s["A"], dtype=float)
    lb = np.asarray(s["lb"], dtype=float) / s["D"]
    ub = np.asarray([np.inf if u == INF else u / s["D"] for u in s["ub"]], dtype=float)
    return A, lb, ub, K_of(s), bl_of(s)


def b_float(s, b):
    return np.asarray(b, dtype=float) / (s["D"] * s["DK"])


def bounded(s):
    return all(u != INF for u in s["ub"])


def filters_sources(A):
    """filters (d x nd), sources (n x nd), dx=1 such that trapezoid capture == A exactly:
    unit filters at interior sample points, zero at both ends."""
    A = np.asarray(A, dtype=float)
    d, n = A.shape
    nd = d + 2
    F = np.zeros((d, nd))
    for i in range(d):
        F[i, i + 1] = 1.0
    S = np.zeros((n, nd))
    for k in range(n):
        S[k, 1:d + 1] = A[:, k]
    return F, S


def make_estimator(dreye, s, register_K=True):
    A, lb, ub, K, bl = floats(s)
    F, S = filters_sources(A)
    kw = {}
    if K is not None and register_K:
        kw["K"] = K
    if bl is not None:
        kw["baseline"] = bl
    est = dreye.ReceptorEstimator(F, domain=1.0, **kw)
    est.register_system(S, lb=lb, ub=(None if not bounded(s) else ub))
    if not np.array_equal(est.A, A):
        raise AssertionError("estimator capture matrix differs from lattice A: %r vs %r" % (est.A, A))
    return est


def kmat(s):
    return [[Fraction(v, s["DK"]) for v in row] for row in s["Kn"]]


def sys_where(s):
    return dict(nrec=len(s["A"]), nsrc=len(s["A"][0]), kk=s["kk"], bk=s["bk"], bounded=bounded(s),
                lbpos=any(v > 0 for v in s["lb"]))
