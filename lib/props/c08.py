"""C08 — underdetermined fits reproduce the target and optimise the chosen secondary goal."""
import numpy as np

from .. import tlc, dsys
from ..common import MachineryFailure, import_dreye, pmap

RULE = ("one TLC state per underdetermined lattice system; for every strictly in-gamut grid target the exact optimum of "
        "each secondary objective over the solution polytope: min / max total intensity (vertex LP), total closest to "
        "a number (clamp), smallest norm / variance / distance to a vector (KKT active-set QP with equality "
        "multipliers); TLC checks feasibility and that no polytope vertex is better; replayed into "
        "ReceptorEstimator.fit_underdetermined for every option (incl. the (option, indices) form restricted to the "
        "first two sources) and tolerance, tightly with CLARABEL, and for a slow ramp of targets in one call.  non-trivial = target whose solution "
        "polytope has >= 2 vertices; distinct = (system, target, option, tolerance)")

TOLX = 2e-2


def fr(r):
    return r[0] / r[1]


def replay_state(args):
    st, epss = args
    dreye = import_dreye()
    s = st["sys"]
    A, lb, ub, K, bl = dsys.floats(s)
    D = s["D"]
    Kmat = np.asarray(s["Kn"], float) / s["DK"]
    blv = np.asarray(s["bl"], float) / D
    where0 = dict(fam=st["fam"], **dsys.sys_where(s))
    bad = []
    est = dsys.make_estimator(dreye, s)
    n = A.shape[1]
    ncalls = 0
    for r in sorted(st["recs"], key=lambda r: (r["b"], r["v"])):
        b = dsys.b_float(s, r["b"])
        x0 = np.asarray(r["x0"], float) / D
        v = r["v"] / D
        opts = [("l2", "l2"), ("min", "min"), ("max", "max"), ("var", "var"), ("number", float(v)), ("vector", x0.copy()),
                ("min-subset", ("min", [0, 1])), ("max-subset", ("max", [0, 1]))]
        if r["v"] != 6:   # the string / vector options do not depend on v: run them once per target
            opts = [("number", float(v))]
        for eps in epss:
            for name, opt in opts:
                w = dict(opt=name, l2_eps=eps, **where0)
                try:
                    X, Bp = est.fit_underdetermined(b[None, :].copy(), underdetermined_opt=opt, l2_eps=eps)
                    ncalls += 1
                except Exception as ex:
                    bad.append(("C08.no-error", dict(exc=type(ex).__name__, **w), None, repr(ex)[:200], r))
                    continue
                x = np.asarray(X, float)[0]
                if np.any(x < lb - 1e-2 * (ub - lb)) or np.any(x > ub + 1e-2 * (ub - lb)):
                    bad.append(("C08.bounds", w, [lb.tolist(), ub.tolist()], x.tolist(), r))
                pred = Kmat @ (A @ x + blv)
                # default solver settings satisfy a constraint only to the solver's own feasibility tolerance (OSQP: 1e-5
                # relative to the problem scale; residuals up to ~2e-4 observed): asserted up to 1e-3 here, tightly with CLARABEL below
                if np.linalg.norm(pred - b) > eps + 1e-3:
                    bad.append(("C08.reproduces-target", w, b.tolist(), pred.tolist(), r))
                if name in ("number", "var"):
                    try:
                        Xh, _ = est.fit_underdetermined(b[None, :].copy(), underdetermined_opt=opt, l2_eps=eps, solver="CLARABEL")
                        predh = Kmat @ (A @ np.asarray(Xh, float)[0] + blv)
                        if np.linalg.norm(predh - b) > eps * 1.05 + 1e-7:
                            bad.append(("C08.reproduces-target", dict(solver="CLARABEL", **w), b.tolist(), predh.tolist(), r))
                    except Exception as ex:
                        bad.append(("C08.no-error", dict(exc=type(ex).__name__, solver="CLARABEL", **w), None, repr(ex)[:200], r))
                if np.max(np.abs(np.asarray(Bp)[0] - pred)) > 1e-9 * (1 + np.max(np.abs(pred))):
                    bad.append(("C08.pred-identity", w, pred.tolist(), np.asarray(Bp)[0].tolist(), r))
                slack = 10 * eps
                if name == "min":
                    e = fr(r["minsum"]) / D
                    if abs(x.sum() - e) > TOLX * n + slack:
                        bad.append(("C08.objective", w, e, float(x.sum()), r))
                elif name == "max":
                    e = fr(r["maxsum"]) / D
                    if abs(x.sum() - e) > TOLX * n + slack:
                        bad.append(("C08.objective", w, e, float(x.sum()), r))
                elif name in ("min-subset", "max-subset"):
                    e = fr(r["minsub" if name == "min-subset" else "maxsub"]) / D
                    if abs(x[:2].sum() - e) > TOLX * 2 + slack:
                        bad.append(("C08.objective", w, e, float(x[:2].sum()), r))
                elif name == "number":
                    e = fr(r["numsum"]) / D
                    if abs(x.sum() - e) > TOLX * n + slack:
                        bad.append(("C08.objective", w, e, float(x.sum()), r))
                else:
                    key = {"l2": "l2", "var": "var", "vector": "vec"}[name]
                    e = np.asarray(r[key]["x"], float) / r[key]["den"] / D
                    if name == "var" and not r["var_unique"]:
                        if abs(np.var(x) - np.var(e)) > TOLX:
                            bad.append(("C08.objective", w, float(np.var(e)), float(np.var(x)), r))
                    elif np.max(np.abs(x - e)) > TOLX + slack:
                        bad.append(("C08.objective", w, e.tolist(), x.tolist(), r))
    # several targets in ONE call that differ by a few 1e-6 (a slow ramp): every row must reproduce its OWN target
    # within the tight tolerance (strictly in-gamut targets moved towards the centre of the gamut stay in gamut)
    centre = Kmat @ (A @ ((lb + ub) / 2) + blv)
    recs1 = [r for r in sorted(st["recs"], key=lambda r: (r["b"], r["v"])) if r["v"] == 6][:4]
    for r in recs1:
        b = dsys.b_float(s, r["b"])
        dirn = centre - b
        if np.linalg.norm(dirn) < 1e-9:
            continue
        dirn = dirn / np.linalg.norm(dirn)
        Bramp = np.array([b + k * 2.5e-6 * dirn for k in range(4)])
        for name, opt in (("l2", "l2"), ("number", float(r["v"] / D))):
            w = dict(opt=name, l2_eps=1e-6, solver="CLARABEL", ramp=True, **where0)
            try:
                X, Bp = est.fit_underdetermined(Bramp.copy(), underdetermined_opt=opt, l2_eps=1e-6, solver="CLARABEL")
                ncalls += 1
                pred = (np.asarray(X, float) @ A.T + blv) @ Kmat.T
                err = np.linalg.norm(pred - Bramp, axis=1)
                if np.any(err > 1e-6 * 1.05 + 1e-7):
                    bad.append(("C08.reproduces-target", w, Bramp.tolist(), pred.tolist(), r))
            except Exception as ex:
                bad.append(("C08.no-error", dict(exc=type(ex).__name__, **w), None, repr(ex)[:200], r))
    # several DIFFERENT targets in one call, in an order that is neither sorted nor reversed: row k of the result must
    # be the fit of row k of the targets
    recsb = [r for r in sorted(st["recs"], key=lambda r: (r["b"], r["v"])) if r["v"] == 6]
    if len(recsb) >= 4:
        import random as _random
        order = list(range(len(recsb)))
        _random.Random(len(recsb) * 7 + n).shuffle(order)
        order = order[:6]
        Bb = np.array([dsys.b_float(s, recsb[k]["b"]) for k in order])
        w = dict(opt="l2", l2_eps=1e-4, batch_rows=len(order), **where0)
        try:
            X, Bp = est.fit_underdetermined(Bb.copy(), underdetermined_opt="l2", l2_eps=1e-4)
            ncalls += 1
            for j, k in enumerate(order):
                r = recsb[k]
                e = np.asarray(r["l2"]["x"], float) / r["l2"]["den"] / D
                if np.max(np.abs(np.asarray(X, float)[j] - e)) > TOLX + 1e-3:
                    bad.append(("C08.objective", dict(row=j, **w), e.tolist(), np.asarray(X, float)[j].tolist(), r))
        except Exception as ex:
            bad.append(("C08.no-error", dict(exc=type(ex).__name__, **w), None, repr(ex)[:200], None))
    return bad, ncalls


def run(ctx):
    thorough = ctx.tier == "thorough"
    res = tlc.run("mc/MC_C08", cfg="mc/MC_C08_%s.cfg" % ("thorough" if thorough else "quick"), dump=True, timeout=3400)
    ctx.add_tlc(res)
    sts = [s for s in tlc.states_parallel(res, "out") if "recs" in s and s["recs"]]
    tlc.cleanup(res)
    if not sts:
        raise MachineryFailure("no states")
    epss = [1e-6, 1e-4, 1e-3] if thorough else [1e-4]
    parts = pmap(replay_state, [(st, epss) for st in sts], chunksize=1)
    for st, (bad, ncalls) in zip(sts, parts):
        for clause, where, exp, obs, r in bad:
            ctx.violation(clause, where, dict(sys=st["sys"], rec=r, fam=st["fam"]), exp, obs)
        ctx.evaluations += ncalls
        ctx.count("systems:" + st["fam"])
        for r in st["recs"]:
            if r["nverts"] >= 2:
                ctx.nontrivial.add((repr(st["sys"]), tuple(r["b"]), r["v"]))
    ctx.traces += len(sts)
    ctx.extra["l2_eps"] = epss
    for st in sts[:2]:
        ctx.sample(dict(sys=st["sys"], rec=st["recs"][0]))
    ctx.assumptions += ["intensity tolerance 2e-2 (+10*l2_eps for the enlargement of the feasible set by the tolerance)",
                        "systems 1x2, 1x3, 2x3 (2x4 thorough); strictly in-gamut lattice targets"]
    return ctx.finish(rule=RULE, exhaustive=True)


def replay(ctx, rep):
    c = rep["case"]
    st = dict(fam=c.get("fam", "?"), sys=c["sys"], recs=[c["rec"]] if c.get("rec") else [])
    bad, _ = replay_state((st, [1e-6, 1e-4, 1e-3]))
    for b in bad:
        print("still failing:", b[0], b[1], b[3])
    return 1 if bad else 0
