"""C19 — domain equalisation interpolates onto the exact overlap at coarsest resolution."""
import numpy as np

from .. import tlc
from ..common import MachineryFailure, import_dreye, pmap

RULE = ("cases = states of MC_C19: all ordered pairs (and triples) of lattice domains (half-integer points, sizes 2-4, "
        "ascending and reversed), with exact status (same / reject / interp / unspecified), exact candidate grids "
        "(both neighbours on a rounding tie) and exactly interpolated arrays; replayed into equalize_domains for "
        "rank-1/2/3 arrays with the domain on different axes, stack / concatenate options, and into "
        "ReceptorEstimator.capture(signal, domain=own).  non-trivial = status interp or reject; distinct = domain tuple")


def fr(r):
    return r[0] / r[1]


def match_cand(case, dom, arrs_1d):
    """index of the candidate matching the returned domain and 1-D arrays, or None"""
    for c in case["cands"]:
        g = np.array([fr(v) for v in c["grid"]]) / case["DX"]
        if len(g) != len(dom) or np.max(np.abs(g - dom)) > 1e-12:
            continue
        ok = True
        for k, a in enumerate(arrs_1d):
            e = np.array([fr(v) for v in c["arrs"][k]])
            if a.shape != e.shape or np.max(np.abs(a - e)) > 1e-9 * (1 + np.max(np.abs(e))):
                ok = False
        if ok:
            return c
    return None


def replay_case(case):
    dreye = import_dreye()
    bad = []
    ds = [np.array(d, float) / case["DX"] for d in case["ds"]]
    ys = [np.array(y, float) for y in case["ys"]]
    st = case["status"]
    where0 = dict(status=st, ndom=len(ds), unsorted=any(np.any(np.diff(d) < 0) for d in ds), tie=len(case["cands"]) == 2)
    try:
        dom, arrs = dreye.equalize_domains([d.copy() for d in ds], [y.copy() for y in ys])
        raised = None
    except ValueError as ex:
        raised = ex
    except Exception as ex:
        bad.append(("C19.no-error", dict(exc=type(ex).__name__, **where0), None, repr(ex)[:200]))
        return bad
    if st == "reject":
        if raised is None:
            bad.append(("C19.disjoint-rejected", where0, "ValueError", "returned"))
        return bad
    if st == "either":
        return bad
    if raised is not None:
        bad.append(("C19.no-error", dict(exc="ValueError", **where0), None, repr(raised)[:200]))
        return bad
    if st == "same":
        if not np.array_equal(dom, ds[0]) or any(not np.array_equal(a, y) for a, y in zip(arrs, ys)):
            bad.append(("C19.same-unchanged", where0, None, None))
        return bad
    c = match_cand(case, np.asarray(dom, float), [np.asarray(a, float) for a in arrs])
    if c is None:
        bad.append(("C19.grid-and-values", dict(rank=1, **where0), [cc["m"] for cc in case["cands"]], [np.asarray(dom).tolist(), [np.asarray(a).tolist() for a in arrs]]))
        return bad
    exp = [np.array([fr(v) for v in a]) for a in c["arrs"]]
    # the same domains in other units / number types: integer arrays (units of 1/DX) and decimal units (x 0.1, 0.7:
    # not representable in binary).  The grid is equivariant, the interpolated arrays are unchanged, and the grid starts
    # and ends EXACTLY at the overlap (largest first / smallest last sample of the inputs).
    for uname, mk in (("int", lambda d: np.array(d, int)), ("x0.1", lambda d: np.array(d, float) * 0.1), ("x0.7", lambda d: np.array(d, float) * 0.7)):
        try:
            du = [mk(d) for d in case["ds"]]
            scale = {"int": float(case["DX"]), "x0.1": 0.1 * case["DX"], "x0.7": 0.7 * case["DX"]}[uname]
            domu, arru = dreye.equalize_domains([d.copy() for d in du], [y.copy() for y in ys])
            domu = np.asarray(domu, float)
            lo = max(float(np.min(d)) for d in du)
            hi = min(float(np.max(d)) for d in du)
            wu = dict(units=uname, **where0)
            ok = False
            for cc in case["cands"]:
                g = np.array([fr(v) for v in cc["grid"]]) / case["DX"] * scale
                if len(g) != len(domu) or np.max(np.abs(g - domu)) > 1e-9 * (1 + np.max(np.abs(g))):
                    continue
                es = [np.array([fr(v) for v in e]) for e in cc["arrs"]]
                if all(np.asarray(a).shape == e.shape and np.max(np.abs(np.asarray(a, float) - e)) <= 1e-8 * (1 + np.max(np.abs(e))) for a, e in zip(arru, es)):
                    ok = True
            if not ok:
                bad.append(("C19.grid-and-values", dict(rank=1, **wu), [cc["m"] for cc in case["cands"]], [domu.tolist(), [np.asarray(a).tolist() for a in arru]]))
            elif domu[0] != lo or domu[-1] != hi:
                bad.append(("C19.exact-overlap", wu, [lo, hi], [float(domu[0]), float(domu[-1])]))
        except ValueError as ex:
            # overlap exactly one coarsest step long: in decimal units the code's float comparison "overlap shorter
            # than the step" can go either way under round-off; the property is silent about this boundary
            from fractions import Fraction
            step = max(Fraction(max(d) - min(d), len(d) - 1) for d in case["ds"])
            over = min(max(d) for d in case["ds"]) - max(min(d) for d in case["ds"])
            if not (uname != "int" and over == step):
                bad.append(("C19.no-error", dict(exc="ValueError", units=uname, **where0), None, repr(ex)[:200]))
        except Exception as ex:
            bad.append(("C19.no-error", dict(exc=type(ex).__name__, units=uname, **where0), None, repr(ex)[:200]))
    # higher ranks / axes / stacking
    mult2 = np.array([1.0, -2.0, 0.5])
    try:
        # rank 2, domain on last axis (default axes)
        A2 = [np.outer(mult2, y) for y in ys]
        dom2, arrs2 = dreye.equalize_domains([d.copy() for d in ds], A2)
        for k, a in enumerate(arrs2):
            if not np.allclose(a, np.outer(mult2, exp[k]), rtol=0, atol=1e-9 * (1 + np.max(np.abs(exp[k])))):
                bad.append(("C19.grid-and-values", dict(rank=2, axis=-1, **where0), None, None))
        # rank 2, domain on axis 0 for the first array, last for the others
        axes = [0] + [-1] * (len(ds) - 1)
        A3 = [np.outer(ys[0], mult2)] + [np.outer(mult2, y) for y in ys[1:]]
        dom3, arrs3 = dreye.equalize_domains([d.copy() for d in ds], A3, axes=axes)
        if not np.allclose(arrs3[0], np.outer(exp[0], mult2), rtol=0, atol=1e-9 * (1 + np.max(np.abs(exp[0])))):
            bad.append(("C19.grid-and-values", dict(rank=2, axis=0, **where0), None, None))
        # rank 3, domain on the middle axis, same axis for all
        A4 = [np.einsum("i,j,k->ijk", mult2, y, np.array([1.0, 3.0])) for y in ys]
        dom4, arrs4 = dreye.equalize_domains([d.copy() for d in ds], A4, axes=1)
        for k, a in enumerate(arrs4):
            if not np.allclose(a, np.einsum("i,j,k->ijk", mult2, exp[k], np.array([1.0, 3.0])), rtol=0, atol=1e-9 * (1 + np.max(np.abs(exp[k])))):
                bad.append(("C19.grid-and-values", dict(rank=3, axis=1, **where0), None, None))
        # stack / concatenate
        dom5, st5 = dreye.equalize_domains([d.copy() for d in ds], [y.copy() for y in ys], stack_axis=0)
        if np.asarray(st5).shape != (len(ds), len(dom)) or not np.allclose(st5, np.stack(exp), rtol=0, atol=1e-8):
            bad.append(("C19.stack", dict(mode="stack", **where0), None, None))
        dom6, st6 = dreye.equalize_domains([d.copy() for d in ds], [y.copy() for y in ys], stack_axis=0, concatenate=True)
        if np.asarray(st6).shape != (len(ds) * len(dom),) or not np.allclose(st6, np.concatenate(exp), rtol=0, atol=1e-8):
            bad.append(("C19.stack", dict(mode="concatenate", **where0), None, None))
        # idempotence
        dom7, arrs7 = dreye.equalize_domains([np.asarray(dom).copy() for _ in ds], [np.asarray(a).copy() for a in arrs])
        if not np.array_equal(dom7, dom) or any(not np.array_equal(a, b) for a, b in zip(arrs7, arrs)):
            bad.append(("C19.idempotent", where0, None, None))
    except Exception as ex:
        bad.append(("C19.no-error", dict(exc=type(ex).__name__, variant="rank/axes", **where0), None, repr(ex)[:200]))
    # estimator: capture of a signal supplied on its own domain
    if len(ds) == 2 and np.all(np.diff(ds[0]) > 0):
        try:
            est = dreye.ReceptorEstimator(np.atleast_2d(ys[0]).copy(), domain=ds[0].copy())
            q = np.asarray(est.capture(np.atleast_2d(ys[1]).copy(), domain=ds[1].copy()), float).ravel()
            wants = [fr(cc["cap12"]) for cc in case["cands"]]
            if q.shape != (1,) or min(abs(q[0] - w) for w in wants) > 1e-9 * (1 + max(abs(w) for w in wants)):
                bad.append(("C19.capture-own-domain", where0, wants, q.tolist()))
            # the same question after OTHER questions on the same signal domain (the uncertainty of the filters is
            # equalised onto that domain too): the answer is the one of a fresh estimator
            est2 = dreye.ReceptorEstimator(np.atleast_2d(ys[0]).copy(), domain=ds[0].copy(), filters_uncertainty=np.atleast_2d(ys[0]).copy() * 0.5 + 0.25)
            est2.uncertainty_capture(np.atleast_2d(ys[1]).copy(), domain=ds[1].copy())
            q2 = np.asarray(est2.capture(np.atleast_2d(ys[1]).copy(), domain=ds[1].copy()), float).ravel()
            q3 = np.asarray(est2.capture(np.atleast_2d(ys[1]).copy(), domain=ds[1].copy()), float).ravel()
            if q2.shape != q.shape or np.max(np.abs(q2 - q)) > 1e-12 * (1 + abs(q[0])) or np.max(np.abs(q3 - q)) > 1e-12 * (1 + abs(q[0])):
                bad.append(("C19.capture-own-domain", dict(after="uncertainty_capture on the same domain", **where0), q.tolist(), q2.tolist()))
        except Exception as ex:
            bad.append(("C19.no-error", dict(exc=type(ex).__name__, variant="estimator.capture", **where0), None, repr(ex)[:200]))
    return bad


def _chunk(cs):
    return [replay_case(c) for c in cs]


def run(ctx):
    thorough = ctx.tier == "thorough"
    res = tlc.run("mc/MC_C19", cfg="mc/MC_C19_%s.cfg" % ("thorough" if thorough else "quick"), dump=True, timeout=3400)
    ctx.add_tlc(res)
    cases = [s for s in tlc.states_parallel(res, "out") if "status" in s]
    tlc.cleanup(res)
    if not cases:
        raise MachineryFailure("no cases")
    parts = pmap(_chunk, [cases[i:i + 100] for i in range(0, len(cases), 100)], chunksize=1)
    flat = [b for p in parts for b in p]
    for c, bad in zip(cases, flat):
        for clause, where, exp, obs in bad:
            ctx.violation(clause, where, c, exp, obs)
        ctx.evaluations += 1
        ctx.count("status:" + c["status"])
        if len(c["cands"]) == 2:
            ctx.count("rounding-ties")
        if c["status"] in ("interp", "reject"):
            ctx.nontrivial.add(repr(c["ds"]))
    ctx.traces += len(cases)
    # spec growth beyond the property: arange_with_interval, rounding helper, equally spaced grids
    from .. import helpers_check
    helpers_check.run(ctx, {"arange", "round", "grid", "signif", "norms"}, "C19")
    for c in [c for c in cases if c["status"] == "interp"][:3]:
        ctx.sample(c)
    ctx.assumptions += ["overlap shorter than one coarsest step: either answer accepted (the property does not decide it)",
                        "exact rounding tie of the interval count: both neighbouring counts accepted"]
    return ctx.finish(rule=RULE, exhaustive=True)


def replay(ctx, rep):
    bad = replay_case(rep["case"])
    for b in bad:
        print("still failing:", b[0], b[1])
    return 1 if bad else 0
