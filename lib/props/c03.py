"""C03 — gamut membership is exact."""
import random

import numpy as np

from .. import tlc, dsys
from ..common import MachineryFailure, import_dreye, pmap

RULE = ("one TLC state per lattice system (families: all 2x2 / 2x3 / 3x3 / 2x4 integer matrices, bound variants, "
        "adaptation x baseline variants, unbounded sources, fewer sources than receptors) carrying a target grid with "
        "the exact class of every target (H-form oracle proved equal to the V-form definition by TLC); every "
        "(system, target) is replayed into ReceptorEstimator.in_hull, in_hull_from_A and in_hull on the explicit "
        "corner cloud.  interior => True and exterior => False are asserted; boundary targets are recorded. "
        "non-trivial = interior or exterior target of a system; distinct = (system, target)")


def replay_system(st):
    dreye = import_dreye()
    from dreye.api.convex import in_hull_from_A, get_P_from_A
    s = st["sys"]
    targets = st["targets"]
    B = np.array([dsys.b_float(s, t["b"]) for t in targets])
    cls = [t["cls"] for t in targets]
    A, lb, ub, K, bl = dsys.floats(s)
    if K is not None:
        K = np.atleast_1d(K)   # the functional API documents K as an array (channels) or (channels x channels)
    where0 = dict(fam=st["fam"], **dsys.sys_where(s))
    bad = []
    answers = {}
    calls = []
    calls.append(("ReceptorEstimator.in_hull", lambda: dsys.make_estimator(dreye, s).in_hull(B)))
    calls.append(("in_hull_from_A", lambda: in_hull_from_A(B, A, lb, ub, K=K, baseline=bl)))
    if dsys.bounded(s):
        def cloud():
            P = get_P_from_A(A, lb, ub, K=K, baseline=bl)
            return dreye.in_hull(P, B)
        calls.append(("in_hull(cloud)", cloud))
    for name, fn in calls:
        try:
            r = np.asarray(fn()).astype(bool)
            if r.shape != (len(targets),):
                bad.append(("C03.no-error", dict(op=name, kind="shape", **where0), None, list(r.shape), None))
                continue
            answers[name] = r
            for k, (c, a) in enumerate(zip(cls, r)):
                if c == "interior" and not a:
                    bad.append(("C03.interior-accepted", dict(op=name, **where0), True, False, targets[k]))
                elif c == "exterior" and a:
                    bad.append(("C03.exterior-rejected", dict(op=name, **where0), False, True, targets[k]))
        except Exception as ex:
            bad.append(("C03.no-error", dict(op=name, exc=type(ex).__name__, **where0), None, repr(ex)[:300], None))
    # a single target passed as a 1-D vector: same decision as in the batch
    try:
        est1 = dsys.make_estimator(dreye, s)
        for k in range(0, len(targets), max(1, len(targets) // 5)):
            a1 = bool(np.asarray(est1.in_hull(B[k].copy())).ravel()[0]) if np.ndim(est1.in_hull(B[k].copy())) else bool(est1.in_hull(B[k].copy()))
            if "ReceptorEstimator.in_hull" in answers and a1 != bool(answers["ReceptorEstimator.in_hull"][k]):
                bad.append(("C03.single-target", dict(op="in_hull(1-D)", **where0), bool(answers["ReceptorEstimator.in_hull"][k]), a1, targets[k]))
    except Exception as ex:
        bad.append(("C03.no-error", dict(op="in_hull(1-D)", exc=type(ex).__name__, **where0), None, repr(ex)[:300], None))
    # chromatic (L1-normalised) membership
    chrom = st.get("chrom") or []
    nchrom = 0
    if chrom:
        Bc = np.array([dsys.b_float(s, t["b"]) for t in chrom])
        try:
            r = np.asarray(dsys.make_estimator(dreye, s).in_hull(Bc, normalized=True)).astype(bool)
            for k, (t, a) in enumerate(zip(chrom, r)):
                nchrom += 1
                if t["cls"] == "interior" and not a:
                    bad.append(("C03.chromatic-interior-accepted", dict(op="in_hull(normalized)", **where0), True, False, t))
                elif t["cls"] == "exterior" and a:
                    bad.append(("C03.chromatic-exterior-rejected", dict(op="in_hull(normalized)", **where0), False, True, t))
        except Exception as ex:
            bad.append(("C03.no-error", dict(op="in_hull(normalized)", exc=type(ex).__name__, **where0), None, repr(ex)[:300], None))
    nb = {n: int(sum(1 for c, a in zip(cls, r) if c == "boundary" and a)) for n, r in answers.items()}
    nb["chromatic_targets"] = nchrom
    return bad, nb


def _chunk(states):
    out = []
    for st in states:
        bad, nb = replay_system(st)
        out.append((bad, nb))
    return out


def run(ctx):
    thorough = ctx.tier == "thorough"
    res = tlc.run("mc/MC_C03", cfg="mc/MC_C03_%s.cfg" % ("thorough" if thorough else "quick"), dump=True, timeout=3400)
    ctx.add_tlc(res)
    sts = tlc.states_parallel(res, "out")
    tlc.cleanup(res)
    if not sts:
        raise MachineryFailure("no systems dumped")
    if not all(st["agree"] for st in sts):
        raise MachineryFailure("oracle/definition disagreement slipped past the invariant")
    parts = pmap(_chunk, [sts[i:i + 4] for i in range(0, len(sts), 4)], chunksize=1)
    flat = [x for p in parts for x in p]
    bnd_true = {}
    for st, (bad, nb) in zip(sts, flat):
        for clause, where, exp, obs, tgt in bad:
            ctx.violation(clause, where, dict(sys=st["sys"], target=tgt), exp, obs)
        for k, v in nb.items():
            bnd_true[k] = bnd_true.get(k, 0) + v
        ctx.count("systems:" + st["fam"])
        for t in st["targets"]:
            ctx.evaluations += 1
            ctx.count("targets:" + t["cls"])
            if t["cls"] != "boundary":
                ctx.nontrivial.add((repr(st["sys"]), tuple(t["b"])))
    # spec growth beyond the property: corner clouds (order, include_ratios) and in_system
    from .. import helpers_check
    helpers_check.run(ctx, {"corners"}, "C03")
    # code -> spec: recorded calls on random lattice systems outside the curated families, recomputed by TLC
    from .. import sysdriver
    sysdriver.run_trace(ctx, "inhull", "C03", 16, 40 if thorough else 12)
    ctx.traces += len(sts)
    ctx.extra["boundary_targets_reported_in"] = bnd_true
    for st in sts[:: max(1, len(sts) // 3)][:3]:
        ctx.sample(dict(sys=st["sys"], fam=st["fam"], n_targets=len(st["targets"]), first_targets=st["targets"][:6]))
    ctx.assumptions += ["targets are lattice points (units 1/(D*DK)); the smallest distance of an asserted target to the gamut boundary is >= 1/(|nu| D DK) ~ 1e-2, far above qhull round-off",
                        "boundary targets: answer recorded, not asserted"]
    return ctx.finish(rule=RULE, exhaustive=True)


def replay(ctx, rep):
    case = rep["case"]
    st = dict(fam=rep["where"].get("fam", "?"), sys=case["sys"], targets=[case["target"]] if case.get("target") else [])
    if not st["targets"]:
        print("replay needs a target; system-level failure:", rep.get("observed"))
        st["targets"] = [dict(b=[0] * len(case["sys"]["A"]), cls="boundary")]
    bad, nb = replay_system(st)
    for b in bad:
        print("still failing:", b[0], b[1], b[3])
    return 1 if bad else 0
