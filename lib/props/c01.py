"""C01 — capture is the trapezoid integral of filter x signal, pairwise and linear."""
import itertools
import random

import numpy as np

from .. import tlc
from ..common import MachineryFailure, import_dreye, pmap

RULE = ("cases = states of MC_C01 (shape class x sizes x domain variant x lattice arrays), each replayed into "
        "calculate_capture, integral and ReceptorEstimator.capture with integer-exact comparison; plus random larger "
        "lattice calls recorded and validated by Trace_C01.  non-trivial = expected result has a non-zero entry; "
        "distinct = distinct (shape, arrays, domain) tuples")


def _dom(case):
    if case["dom"]:
        return np.asarray(case["dom"], dtype=float) / case["DX"]
    v = case["p"] / case["q"]
    return int(v) if (case["q"] == 1 and case.get("intstep")) else float(v)


def _call_capture(dreye, case):
    kw = {}
    if not case["dom"]:
        kw["trapz"] = case["trapz"]
    return dreye.calculate_capture(np.asarray(case["F"], float), np.asarray(case["S"], float), domain=_dom(case), **kw)


def _eq(res, scale, exp):
    res = np.asarray(res)
    exp = np.asarray(exp)
    if res.shape != exp.shape:
        return False, "shape %s != %s" % (res.shape, exp.shape)
    if not np.array_equal(res * scale, exp):
        return False, "values"
    return True, ""


def replay_case(case):
    """Return list of (clause, where, expected, observed)."""
    dreye = import_dreye()
    bad = []
    sc = case["sc"]
    # calculate_capture
    try:
        res = _call_capture(dreye, case)
        ok, why = _eq(res, case["scale"], case["exp"])
        if not ok:
            bad.append(("C01.value", dict(op="calculate_capture", sc=sc, kind=why, trapz=case["trapz"], arraydom=bool(case["dom"])), case["exp"], (np.asarray(res) * case["scale"]).tolist()))
    except Exception as ex:
        bad.append(("C01.no-error", dict(op="calculate_capture", exc=type(ex).__name__), case["exp"], repr(ex)))
    # the same call with the domain in other units: a power-of-two factor keeps every product exact, so the result
    # must scale by exactly that factor (domains in metres instead of nanometres are as legitimate as any other)
    for ds in (2.0 ** -30, 2.0 ** 12):
        try:
            c2 = dict(case)
            kw = {} if case["dom"] else {"trapz": case["trapz"]}
            d2 = (np.asarray(case["dom"], dtype=float) / case["DX"] * ds) if case["dom"] else (case["p"] / case["q"]) * ds
            res = dreye.calculate_capture(np.asarray(case["F"], float), np.asarray(case["S"], float), domain=d2, **kw)
            ok, why = _eq(np.asarray(res) / ds, case["scale"], case["exp"])
            if not ok:
                bad.append(("C01.value", dict(op="calculate_capture", sc=sc, kind=why, domain_units=ds, arraydom=bool(case["dom"])), case["exp"], (np.asarray(res) / ds * case["scale"]).tolist()))
            if case["trapz"]:
                r = dreye.integral(np.asarray(case["S"], float), d2)
                ok, why = _eq(np.asarray(r) / ds, case["iscale"], case["expI"])
                if not ok:
                    bad.append(("C01.integral-value", dict(op="integral", kind=why, domain_units=ds), case["expI"], (np.asarray(r) / ds * case["iscale"]).tolist()))
        except Exception as ex:
            bad.append(("C01.no-error", dict(op="calculate_capture", exc=type(ex).__name__, domain_units=ds), case["exp"], repr(ex)))
    if case["trapz"]:
        # stand-alone integral helper: rows of S, last axis and moved axis, keepdims both ways
        S = np.asarray(case["S"], float)
        dom = _dom(case)
        for axis, keep in ((-1, False), (0, False), (-1, True), (0, True)):
            arr = S if axis == -1 else np.moveaxis(S, -1, 0)
            try:
                r = dreye.integral(arr, dom, axis=axis, keepdims=keep)
                if keep:
                    want_shape = list(arr.shape)
                    want_shape[axis] = 1
                    if list(np.shape(r)) != want_shape:
                        bad.append(("C01.integral-value", dict(op="integral", kind="keepdims-shape", axis=axis), want_shape, list(np.shape(r))))
                        continue
                    r = np.squeeze(r, axis=axis)
                ok, why = _eq(r, case["iscale"], case["expI"])
                if not ok:
                    bad.append(("C01.integral-value", dict(op="integral", kind=why, axis=axis, keepdims=keep), case["expI"], (np.asarray(r) * case["iscale"]).tolist()))
            except Exception as ex:
                bad.append(("C01.no-error", dict(op="integral", exc=type(ex).__name__), case["expI"], repr(ex)))
        # estimator capture (filters must be 2-D there)
        if sc in ("21", "22", "23"):
            try:
                est = dreye.ReceptorEstimator(np.asarray(case["F"], float), domain=_dom(case))
                r = est.capture(np.asarray(case["S"], float))
                ok, why = _eq(r, case["scale"], case["exp"])
                if not ok:
                    bad.append(("C01.value", dict(op="ReceptorEstimator.capture", sc=sc, kind=why), case["exp"], (np.asarray(r) * case["scale"]).tolist()))
            except Exception as ex:
                bad.append(("C01.no-error", dict(op="ReceptorEstimator.capture", exc=type(ex).__name__), case["exp"], repr(ex)))
    return bad


def _replay_chunk(cases):
    out = []
    for c in cases:
        for b in replay_case(c):
            out.append((c, b))
    return out


# ---- code -> spec driver ---------------------------------------------------
def _rand_case(rng, i):
    sc = rng.choice(["11", "12", "21", "22", "22", "32", "23", "33"])
    nd = rng.randint(2, 8)
    nf, ns, nb = rng.randint(1, 4), rng.randint(1, 4), rng.randint(1, 3)
    v = lambda *shape: np.array([rng.randint(-8, 8) for _ in range(int(np.prod(shape)))]).reshape(shape).tolist()
    F = v(nd) if sc in ("11", "12") else v(nf, nd) if sc in ("21", "22", "23") else v(nb, nf, nd)
    S = v(nd) if sc in ("11", "21") else v(ns, nd) if sc in ("12", "22", "32") else v(nb, ns, nd)
    kind = rng.choice(["arr", "arr", "step", "nearly"])
    DX = 2
    if kind == "nearly":
        # a nearly uniform axis (steps within half a percent of each other, as from a spectrometer's calibration
        # polynomial), in units of 1/1024 so that every sample is exact in floating point
        DX = 1024
        xs = np.cumsum([rng.randint(1019, 1029) for _ in range(nd)]).tolist()
        dom, p, q, trapz = xs, 1, 1, True
    elif kind == "arr":
        xs = sorted(rng.sample(range(0, 40), nd))
        dom, p, q, trapz = xs, 1, 1, True
    else:
        dom = []
        p, q = rng.choice([(1, 1), (1, 2), (2, 1), (3, 1), (1, 4), (5, 2), (7, 1)])
        trapz = rng.random() < 0.7
    return dict(i=i, sc=sc, F=F, S=S, dom=dom, DX=DX, p=p, q=q, trapz=trapz, intstep=(q == 1 and rng.random() < 0.5))


def _int_nested(a):
    a = np.asarray(a)
    r = np.rint(a)
    if not np.array_equal(a, r) or np.any(np.abs(r) >= 2 ** 31):
        return None
    return r.astype(int).tolist()


def drive(cases):
    """Run the real code on random cases, return (events, direct_bad)."""
    dreye = import_dreye()
    events, direct = [], []
    for c in cases:
        for op in ("calculate_capture", "integral", "ReceptorEstimator.capture"):
            if op == "integral" and not c["trapz"]:
                continue
            if op == "ReceptorEstimator.capture" and (c["sc"] not in ("21", "22", "23") or not c["trapz"]):
                continue
            e = dict(i=len(events) + 1, op=("integral" if op == "integral" else "calculate_capture"), via=op, sc=c["sc"], F=c["F"], S=c["S"],
                     dom=c["dom"], DX=c["DX"], p=c["p"], q=c["q"], trapz=c["trapz"], exc="")
            scale = (2 * c["DX"]) if c["dom"] else (2 * c["q"] if (c["trapz"] or op == "integral") else c["q"])
            e["scale"] = scale
            try:
                if op == "calculate_capture":
                    r = _call_capture(dreye, c)
                elif op == "integral":
                    r = dreye.integral(np.asarray(c["S"], float), _dom(c))
                else:
                    r = dreye.ReceptorEstimator(np.asarray(c["F"], float), domain=_dom(c)).capture(np.asarray(c["S"], float))
                want = np.shape(c["S"])[:-1] if op == "integral" else _cap_shape(c)
                if tuple(np.shape(r)) != tuple(want):
                    direct.append(("C01.value", dict(op=op, sc=c["sc"], kind="shape"), list(want), list(np.shape(r)), c))
                    continue
                ints = _int_nested(np.asarray(r) * scale)
                if ints is None:
                    direct.append(("C01.value", dict(op=op, sc=c["sc"], kind="non-integer result on integer lattice"), None, np.asarray(r).tolist(), c))
                    continue
                e["res"] = ints
            except Exception as ex:
                e["exc"] = type(ex).__name__
                e["res"] = 0
            events.append(e)
    return events, direct


def _cap_shape(c):
    F, S = np.shape(c["F"]), np.shape(c["S"])
    sc = c["sc"]
    if sc == "11":
        return ()
    if sc == "12":
        return (S[0],)
    if sc == "21":
        return (F[0],)
    if sc == "22":
        return (S[0], F[0])
    nb = F[0] if sc in ("32", "33") else S[0]
    ns = S[-2]
    nf = F[-2]
    return (nb, ns, nf)


def _drive_chunk(cases):
    return drive(cases)


def big_batches(seed):
    dreye = import_dreye()
    rng = np.random.default_rng(seed)
    bad = []
    nd = 101
    F = rng.integers(0, 6, (5, nd)).astype(float)
    S = rng.integers(0, 6, (2200, nd)).astype(float)       # 2200 x 5 x 101 > 2^20 element products
    S[:, 0] = rng.integers(1, 6, 2200)                       # non-zero at both domain ends
    S[:, -1] = rng.integers(1, 6, 2200)
    domains = [("dx-trapz", dict(domain=2.0, trapz=True)), ("dx-rect", dict(domain=2.0, trapz=False)),
               ("dx-rect-1", dict(domain=1.0, trapz=False)), ("array-domain", dict(domain=np.cumsum(rng.integers(1, 4, nd)).astype(float)))]
    pick = rng.choice(2200, 12, replace=False)
    for name, kw in domains:
        for FF, fname in ((F, "2-D filters"), (np.stack([F, F[::-1]]), "batched filters")):
            w = dict(kind=name, filters=fname, n_signals=2200)
            try:
                big = np.asarray(dreye.calculate_capture(FF, S, **kw), float)
                for i in pick:
                    small = np.asarray(dreye.calculate_capture(FF, S[i:i + 1], **kw), float)
                    row = big[..., i:i + 1, :]
                    if row.shape != small.shape or not np.array_equal(row, small):
                        bad.append(("C01.pairwise-independence", w, small.tolist(), row.tolist() if row.shape == small.shape else list(row.shape)))
                        break
            except Exception as ex:
                bad.append(("C01.no-error", dict(exc=type(ex).__name__, **w), None, repr(ex)[:200]))
    # arrays that rely on broadcasting along the domain axis (length 1 there): a flat filter or a flat signal is the
    # same as the explicitly repeated one
    Fs, Ss = F[:, :1].copy(), S[:7].copy()
    for name, kw in domains:
        w = dict(kind=name, broadcast="flat filters (.., 1)")
        try:
            got = np.asarray(dreye.calculate_capture(Fs, Ss, **kw), float)
            want = np.asarray(dreye.calculate_capture(np.repeat(Fs, nd, axis=1), Ss, **kw), float)
            if got.shape != want.shape or not np.allclose(got, want, rtol=1e-12, atol=0):
                bad.append(("C01.value", w, want.tolist(), got.tolist()))
            got = np.asarray(dreye.calculate_capture(F, Ss[:, :1], **kw), float)
            want = np.asarray(dreye.calculate_capture(F, np.repeat(Ss[:, :1], nd, axis=1), **kw), float)
            if got.shape != want.shape or not np.allclose(got, want, rtol=1e-12, atol=0):
                bad.append(("C01.value", dict(kind=name, broadcast="flat signals (.., 1)"), want.tolist(), got.tolist()))
        except Exception as ex:
            bad.append(("C01.no-error", dict(exc=type(ex).__name__, **w), None, repr(ex)[:200]))
    return bad


def run(ctx):
    thorough = ctx.tier == "thorough"
    # (1) model checking + (A) spec -> code
    res = tlc.run("mc/MC_C01", cfg="mc/MC_C01_%s.cfg" % ("thorough" if thorough else "quick"), dump=True, coverage=True, timeout=3000)
    ctx.add_tlc(res)
    if res.coverage.get("Level2", (0, 0))[0] == 0:
        raise MachineryFailure("MC_C01: Level2 never taken (vacuous)")
    cases = tlc.states_parallel(res, "out")
    tlc.cleanup(res)
    if not cases:
        raise MachineryFailure("no cases dumped")
    rng = random.Random(ctx.seed)
    for c in cases:
        c["intstep"] = False
    chunks = [cases[i:i + 500] for i in range(0, len(cases), 500)]
    classes = {}
    for part in pmap(_replay_chunk, chunks, chunksize=1):
        for c, (clause, where, exp, obs) in part:
            ctx.violation(clause, where, c, exp, obs)
    for c in cases:
        ctx.evaluations += 1
        k = "sc=%s %s" % (c["sc"], "array-domain" if c["dom"] else ("dx-trapz" if c["trapz"] else "dx-rect"))
        classes[k] = classes.get(k, 0) + 1
        if np.any(np.asarray(c["exp"]) != 0):
            ctx.nontrivial.add(repr((c["sc"], c["F"], c["S"], c["dom"], c["p"], c["q"], c["trapz"])))
    ctx.traces += len(cases)
    for c in cases[:: max(1, len(cases) // 3)][:3]:
        ctx.sample(dict(kind="spec->code", **c))
    ctx.counts.update(classes)
    # (A') pairwise independence at scale: thousands of signals in one call (above any size threshold a fast path might
    # have): every entry must equal the entry of the small call for that (signal, filter) pair alone, which (A) has
    # compared with the specification.  Integer-valued arrays: all sums are exact.
    for clause, where, exp, obs in big_batches(ctx.seed):
        ctx.violation(clause, where, dict(big_batch=True), exp, obs)
    ctx.count("big-batch configurations", 8)
    ctx.evaluations += 8
    # (B) code -> spec
    n = 6000 if thorough else 1500
    rcases = [_rand_case(rng, i) for i in range(n)]
    parts = pmap(_drive_chunk, [rcases[i:i + 100] for i in range(0, n, 100)], chunksize=1)
    events = []
    for ev, direct in parts:
        for clause, where, exp, obs, c in direct:
            ctx.violation(clause, where, c, exp, obs)
        events.extend(ev)
    for i, e in enumerate(events):
        e["i"] = i + 1
    tres, bad, path = tlc.validate_trace("Trace_C01", events, "C01")
    ctx.add_tlc(tres)
    ctx.traces += len(events)
    ctx.evaluations += len(events)
    ctx.count("trace_events", len(events))
    for _, idx, clause in bad:
        e = events[idx - 1]
        ctx.violation(clause, dict(op=e["via"], sc=e["sc"], exc=e["exc"], trapz=e["trapz"], arraydom=bool(e["dom"])), e, "Capture.tla value", e.get("res"))
    for e in events[:2]:
        ctx.sample(dict(kind="code->spec event", **e))
        ctx.nontrivial.add("trace")
    ctx.extra["trace_file_events"] = len(events)
    ctx.extra["tlc_coverage"] = {k: v[0] for k, v in res.coverage.items()}
    ctx.assumptions += ["lattice values only: integer arrays, half-integer ascending domains, dyadic steps (exact in binary floating point)",
                        "TLC 2.x evaluates Capture.tla faithfully"]
    return ctx.finish(rule=RULE, exhaustive=True)


def replay(ctx, rep):
    case = rep["case"]
    if "via" in case:  # trace event
        events, direct = drive([dict(case, intstep=False)])
        print("re-ran event; direct mismatches:", direct)
        tres, bad, _ = tlc.validate_trace("Trace_C01", [dict(e, i=k + 1) for k, e in enumerate(events)], "C01r")
        print("BAD:", bad)
        return 1 if (bad or direct) else 0
    bad = replay_case(case)
    for b in bad:
        print("still failing:", b[0], b[1])
    return 1 if bad else 0
