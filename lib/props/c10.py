"""C10 — adaptive fit scales intensity and chroma uniformly and stays inside the gamut."""
import numpy as np

from .. import tlc, dsys
from ..common import MachineryFailure, import_dreye, pmap

RULE = ("one TLC state per (lattice system, neutral point, scale weights); target sets of 1-2 rows from inside to far "
        "outside the gamut; the feasible scale set is given exactly as integer strips a*s0+b*s1 in [lo,hi] (one per "
        "gamut facet and sample; TLC: (1,1) feasible iff all targets in gamut) together with all feasible scale pairs "
        "on the 1/8 lattice; fit_adaptive is replayed for both objectives: bounds, per-sample constraint identities, "
        "returned scales inside every exact strip, 'unity' = (1,1) when all targets are in gamut and otherwise not "
        "farther from (1,1) than any feasible lattice pair, 'max' not smaller than any feasible lattice pair and equal "
        "to the optimum of the 2-variable LP over the exact strips.  non-trivial = target set with a row outside the "
        "gamut; distinct = (system, neutral, weights, target set, objective)")

TOL = 2e-3      # solver passed explicitly (CLARABEL): high-accuracy class
DELTA = 1e-6


def lp_max(strips, w):
    """2-variable LP over the exact integer strips (harness oracle built from the spec's data)"""
    from scipy.optimize import linprog
    Aub, bub = [], []
    for t in strips:
        Aub.append([-t["a"], -t["b"]])
        bub.append(-t["lo"])
        if t["hi"] != dsys.INF:
            Aub.append([t["a"], t["b"]])
            bub.append(t["hi"])
    r = linprog([-w[0], -w[1]], A_ub=np.array(Aub, float), b_ub=np.array(bub, float), bounds=[(0, None), (0, None)], method="highs")
    if r.status == 3:
        return "unbounded"
    return -r.fun if r.status == 0 else None


def replay_state(st):
    dreye = import_dreye()
    s = st["sys"]
    A, lb, ub, K, bl = dsys.floats(s)
    S = s["D"] * s["DK"]
    Kmat = np.asarray(s["Kn"], float) / s["DK"]
    blv = np.asarray(s["bl"], float) / s["D"]
    nu0 = np.asarray(st["nu0"], float)
    w = np.asarray(st["w"], float)
    default_neutral = bool(np.all(nu0 == 1))
    where0 = dict(fam=st["fam"], default_neutral=default_neutral, w=list(st["w"]), **dsys.sys_where(s))
    bad = []
    est = dsys.make_estimator(dreye, s)
    L0 = nu0.sum()
    n = 0
    for r in sorted(st["recs"], key=lambda r: r["Bs"]):
        B = np.asarray(r["Bs"], float) / S
        for obj in ("unity", "max"):
            wd = dict(objective=obj, all_in=r["all_in"], rows=len(B), **where0)
            kw = dict(adaptive_objective=obj, scale_w=w.copy(), delta_norm1=DELTA, delta_radius=DELTA, solver="CLARABEL")
            if not default_neutral:
                kw["neutral_point"] = nu0.copy()
            opt = lp_max(r["strips"], w) if obj == "max" else None
            if opt == "unbounded":
                continue      # e.g. every target exactly on the neutral direction: the chroma scale is unconstrained
            try:
                X, scales, Bp = est.fit_adaptive(B.copy(), **kw)
                n += 1
            except Exception as ex:
                if len(r["fgrid"]) == 0 and isinstance(ex, RuntimeError):
                    continue   # no feasible scale pair on the 1/8 lattice: the scale set is empty (or tiny) -- nothing to return
                bad.append(("C10.no-error", dict(exc=type(ex).__name__, **wd), None, repr(ex)[:200], r))
                continue
            X, scales, Bp = np.asarray(X, float), np.asarray(scales, float), np.asarray(Bp, float)
            rng = ub - lb
            if np.any(X < lb - 1e-6 * rng - 1e-7) or np.any(X > ub + 1e-6 * rng + 1e-7):
                bad.append(("C10.bounds", wd, [lb.tolist(), ub.tolist()], X.tolist(), r))
            if np.any(scales < -1e-7):
                bad.append(("C10.positive-scales", wd, ">0", scales.tolist(), r))
            pred = (X @ A.T + blv) @ Kmat.T
            if np.max(np.abs(Bp - pred)) > 1e-9 * (1 + np.max(np.abs(pred))):
                bad.append(("C10.pred-identity", wd, pred.tolist(), Bp.tolist(), r))
            Bsum = B.sum(1)
            N = nu0[None, :] / L0 * Bsum[:, None]
            Rr = B - N
            if np.max(np.abs(pred.sum(1) - scales[0] * Bsum)) > 10 * DELTA + 1e-5:
                bad.append(("C10.intensity-identity", wd, (scales[0] * Bsum).tolist(), pred.sum(1).tolist(), r))
            if np.max(np.abs(pred - scales[0] * N - scales[1] * Rr)) > 10 * DELTA + 1e-5:
                bad.append(("C10.chroma-identity", wd, (scales[0] * N + scales[1] * Rr).tolist(), pred.tolist(), r))
            # scales inside every exact strip
            for t in r["strips"]:
                v = t["a"] * scales[0] + t["b"] * scales[1]
                nrm = abs(t["a"]) + abs(t["b"])
                if v < t["lo"] - TOL * nrm or (t["hi"] != dsys.INF and v > t["hi"] + TOL * nrm):
                    bad.append(("C10.scales-feasible", wd, [t["lo"], t["hi"]], float(v), r))
                    break
            grid = np.asarray(r["fgrid"], float) / 8.0
            if obj == "unity":
                if r["all_in"]:
                    if np.max(np.abs(scales - 1)) > TOL:
                        bad.append(("C10.unity-optimum", wd, [1.0, 1.0], scales.tolist(), r))
                elif len(grid):
                    dbest = np.min(np.sum((w * (grid - 1)) ** 2, axis=1))
                    dmine = np.sum((w * (scales - 1)) ** 2)
                    if dmine > dbest + 4 * TOL:
                        bad.append(("C10.unity-optimum", dict(kind="farther-than-lattice-point", **wd), float(dbest), float(dmine), r))
            else:
                mine = float(w @ scales)
                if len(grid):
                    gbest = float(np.max(grid @ w))
                    if mine < gbest - 4 * TOL and gbest < 4.0 * w.sum() - 1e-9:
                        bad.append(("C10.max-optimum", dict(kind="smaller-than-lattice-point", **wd), gbest, mine, r))
                if opt is not None and abs(mine - opt) > 4 * TOL * (1 + opt):
                    bad.append(("C10.max-optimum", dict(kind="lp-over-exact-strips", **wd), opt, mine, r))
    # nearly achromatic target sets: same intensity direction, chroma offset contracted by EPSC = 2^-12.  By the spec's
    # strip homogeneity (Adaptive!StripHomogeneity, checked by TLC on the integer instances m = 1..3) their exact strips
    # are the recorded ones with b multiplied by EPSC, so the optimal chroma scale of 'max' is in the thousands
    EPSC = 2.0 ** -12
    for r in sorted(st["recs"], key=lambda r: r["Bs"])[:5]:
        B0 = np.asarray(r["Bs"], float) / S
        N0 = nu0[None, :] / L0 * B0.sum(1)[:, None]
        Bc = N0 + EPSC * (B0 - N0)
        if np.any(np.max(np.abs(B0 - N0), axis=1) < 1e-9):
            continue
        strips = [dict(a=t["a"], b=t["b"] * EPSC, lo=t["lo"], hi=t["hi"]) for t in r["strips"]]
        opt = lp_max(strips, w)
        if opt in (None, "unbounded"):
            continue
        wd = dict(objective="max", rows=len(Bc), chroma_contracted="2^-12", **where0)
        kw = dict(adaptive_objective="max", scale_w=w.copy(), delta_norm1=DELTA, delta_radius=DELTA, solver="CLARABEL")
        if not default_neutral:
            kw["neutral_point"] = nu0.copy()
        try:
            X, scales, Bp = est.fit_adaptive(Bc.copy(), **kw)
            n += 1
        except Exception as ex:
            bad.append(("C10.no-error", dict(exc=type(ex).__name__, **wd), None, repr(ex)[:200], r))
            continue
        X, scales = np.asarray(X, float), np.asarray(scales, float)
        rng = ub - lb
        if np.any(X < lb - 1e-6 * rng - 1e-7) or np.any(X > ub + 1e-6 * rng + 1e-7):
            bad.append(("C10.bounds", wd, [lb.tolist(), ub.tolist()], X.tolist(), r))
        pred = (X @ A.T + blv) @ Kmat.T
        if np.max(np.abs(pred - scales[0] * N0 - scales[1] * (Bc - N0))) > 10 * DELTA + 1e-5:
            bad.append(("C10.chroma-identity", wd, (scales[0] * N0 + scales[1] * (Bc - N0)).tolist(), pred.tolist(), r))
        mine = float(w @ scales)
        if abs(mine - opt) > 4 * TOL * (1 + opt):
            bad.append(("C10.max-optimum", dict(kind="lp-over-exact-strips", **wd), opt, mine, r))
    # the two tolerances are independent keywords: unequal pairs, each residual judged against its OWN delta
    for r in sorted(st["recs"], key=lambda r: r["Bs"])[:6]:
        B = np.asarray(r["Bs"], float) / S
        for dn, dr in ((1e-6, 1e-3), (1e-3, 1e-6)):
            wd = dict(objective="unity", all_in=r["all_in"], rows=len(B), deltas="norm1=%g radius=%g" % (dn, dr), **where0)
            kw = dict(adaptive_objective="unity", scale_w=w.copy(), delta_norm1=dn, delta_radius=dr, solver="CLARABEL")
            if not default_neutral:
                kw["neutral_point"] = nu0.copy()
            try:
                X, scales, Bp = est.fit_adaptive(B.copy(), **kw)
                n += 1
            except Exception as ex:
                if len(r["fgrid"]) == 0 and isinstance(ex, RuntimeError):
                    continue
                bad.append(("C10.no-error", dict(exc=type(ex).__name__, **wd), None, repr(ex)[:200], r))
                continue
            X, scales = np.asarray(X, float), np.asarray(scales, float)
            pred = (X @ A.T + blv) @ Kmat.T
            Bsum = B.sum(1)
            N = nu0[None, :] / L0 * Bsum[:, None]
            Rr = B - N
            if np.max(np.abs(pred.sum(1) - scales[0] * Bsum)) > 1.05 * dn + 1e-6:
                bad.append(("C10.intensity-identity", wd, (scales[0] * Bsum).tolist(), pred.sum(1).tolist(), r))
            if np.max(np.abs(pred - scales[0] * N - scales[1] * Rr)) > 1.05 * dr + 1e-6:
                bad.append(("C10.chroma-identity", wd, (scales[0] * N + scales[1] * Rr).tolist(), pred.tolist(), r))
    return bad, n


def _group(sts):
    return [replay_state(st) for st in sts]


def run(ctx):
    thorough = ctx.tier == "thorough"
    res = tlc.run("mc/MC_C10", cfg="mc/MC_C10_%s.cfg" % ("thorough" if thorough else "quick"), dump=True, timeout=3400)
    ctx.add_tlc(res)
    sts = [s for s in tlc.states_parallel(res, "out") if "recs" in s]
    tlc.cleanup(res)
    if not sts:
        raise MachineryFailure("no states")
    nout = sum(1 for s in sts for r in s["recs"] if not r["all_in"])
    nin = sum(1 for s in sts for r in s["recs"] if r["all_in"])
    if not nout or not nin:
        raise MachineryFailure("vacuous lattice: outside=%d inside=%d" % (nout, nin))
    # default call (no solver argument) on one system: must work with the solvers that are installed
    dreye = import_dreye()
    try:
        est = dsys.make_estimator(dreye, sts[0]["sys"])
        r0 = sts[0]["recs"][0]
        est.fit_adaptive(np.asarray(r0["Bs"], float) / (sts[0]["sys"]["D"] * sts[0]["sys"]["DK"]))
    except Exception as ex:
        ctx.violation("C10.no-error", dict(default_call=True, exc=type(ex).__name__), dict(sys=sts[0]["sys"], Bs=sts[0]["recs"][0]["Bs"]), None, repr(ex)[:200])
    # states of the same shape (receptors x sources) run back to back in ONE process, systems with non-negative lower
    # bounds first: whatever the library keeps between calls meets a different sign pattern of the bounds
    from ..common import grouped
    sts.sort(key=lambda st: (len(st["sys"]["A"]), len(st["sys"]["A"][0]), min(st["sys"]["lb"]) < 0, repr(st["sys"]["lb"])))
    groups = grouped(sts, lambda st: (len(st["sys"]["A"]), len(st["sys"]["A"][0]), repr(st["nu0"]), repr(st["w"])))
    sts = [st for g in groups for st in g]
    parts = [r for gp in pmap(_group, groups, chunksize=1) for r in gp]
    for st, (bad, n) in zip(sts, parts):
        for clause, where, exp, obs, r in bad:
            ctx.violation(clause, where, dict(sys=st["sys"], nu0=st["nu0"], w=st["w"], rec={k: v for k, v in r.items() if k != "fgrid"}, fam=st["fam"]), exp, obs)
        ctx.evaluations += n
        ctx.count("states:" + st["fam"])
        for r in st["recs"]:
            if not r["all_in"]:
                ctx.nontrivial.add((repr(st["sys"]), tuple(st["nu0"]), tuple(st["w"]), repr(r["Bs"])))
    ctx.traces += len(sts)
    ctx.extra.update(target_sets_with_row_outside=nout, target_sets_all_inside=nin)
    ctx.sample(dict(sys=sts[0]["sys"], rec={k: (v if k != "fgrid" else v[:6]) for k, v in sts[0]["recs"][0].items()}))
    ctx.assumptions += ["solver passed explicitly (CLARABEL), deltas 1e-6, scale tolerance 2e-3", "the tight 'max' bound is a 2-variable LP solved by the harness (scipy HiGHS) over the exact strips supplied by the spec; the spec-only condition is the 1/8-lattice bound"]
    return ctx.finish(rule=RULE, exhaustive=True)


def replay(ctx, rep):
    """No case-level replay for this property (the failing case depends on recorded / random executions or on the
    spec's answers): re-run the whole quick check against the current tree; exit 0 iff nothing is violated any more."""
    print("replaying by re-running the check; recorded case:", str(rep.get("case"))[:300])
    return run(ctx)
