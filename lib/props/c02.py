"""C02 — a registered system is the exact linear model of the receptor responses."""
import numpy as np

from .. import tlc
from ..common import MachineryFailure, import_dreye, pmap

RULE = ("cases = states of MC_C02: filters x sources x domain (array / scalar step) x adaptation kind "
        "(none/scalar/vector/matrix, incl. thirds and signed) x baseline (none/scalar/vector) x intensity vectors; TLC proves "
        "the mixture identity and 'adapted background => relative capture 1' exactly; each case is replayed into "
        "ReceptorEstimator: A, system_capture, capture of the mixed spectrum, system_relative_capture, "
        "relative_capture, then register_background_adaptation / register_system_adaptation.  non-trivial = case "
        "with K or baseline registered; distinct = case")


def fr(r):
    return r[0] / r[1]


def replay_case(c):
    dreye = import_dreye()
    bad = []
    F = np.array(c["F"], float)
    S = np.array(c["S"], float)
    d = F.shape[0]
    dom = (np.array(c["dom"], float) / c["DX"]) if c["dom"] else c["p"] / c["q"]
    Kn = np.array(c["Kn"], float) / c["DK"]
    K = None if c["kk"] == "none" else Kn[0, 0] if c["kk"] == "scalar" else np.diag(Kn).copy() if c["kk"] == "vector" else Kn
    blv = np.array(c["bl"], float) / 4
    bl = None if c["bk"] == "none" else float(blv[0]) if c["bk"] == "scalar" else blv
    where0 = dict(kk=c["kk"], bk=c["bk"], arraydom=bool(c["dom"]), nrec=d, nsrc=S.shape[0])
    kw = {}
    if K is not None:
        kw["K"] = K
    if bl is not None:
        kw["baseline"] = bl

    def close(a, b, tol=1e-12):
        a, b = np.asarray(a, float), np.asarray(b, float)
        return a.shape == b.shape and np.all(np.abs(a - b) <= tol * (1 + np.abs(b)))
    try:
        est = dreye.ReceptorEstimator(F.copy(), domain=dom, **kw)
        est.register_system(S.copy(), lb=np.zeros(S.shape[0]), ub=np.full(S.shape[0], 4.0))
        A = np.array(c["A"], float) / c["scale"]
        if not close(est.A, A, 0):
            bad.append(("C02.capture-matrix", dict(q="A", **where0), A.tolist(), np.asarray(est.A).tolist()))
        recs = sorted(c["recs"], key=lambda r: r["x"])
        X = np.array([r["x"] for r in recs], float) / 2
        Q = np.array([[fr(v) for v in r["q"]] for r in recs])
        R = np.array([[fr(v) for v in r["rel"]] for r in recs])
        # batch and single-vector forms
        if not close(est.system_capture(X), Q):
            bad.append(("C02.system-capture", dict(q="system_capture", **where0), Q.tolist(), np.asarray(est.system_capture(X)).tolist()))
        if not close(est.system_relative_capture(X), R):
            bad.append(("C02.relative-capture", dict(q="system_relative_capture", **where0), R.tolist(), np.asarray(est.system_relative_capture(X)).tolist()))
        for k, r in enumerate(recs):
            mix = X[k] @ S
            if not close(est.capture(mix), Q[k]):
                bad.append(("C02.mixture", dict(q="capture(mix)", **where0), Q[k].tolist(), np.asarray(est.capture(mix)).tolist()))
            if not close(est.relative_capture(mix), R[k]):
                bad.append(("C02.relative-capture", dict(q="relative_capture(mix)", **where0), R[k].tolist(), np.asarray(est.relative_capture(mix)).tolist()))
            if not close(est.system_capture(X[k]), Q[k]) or not close(est.system_relative_capture(X[k]), R[k]):
                bad.append(("C02.system-capture", dict(q="single-vector", **where0), Q[k].tolist(), np.asarray(est.system_capture(X[k])).tolist()))
        # batches with more than two axes (a batch of batches of intensity vectors)
        if len(recs) >= 2:
            X3 = np.stack([X, X[::-1]])
            for name, want in (("system_capture", np.stack([Q, Q[::-1]])), ("system_relative_capture", np.stack([R, R[::-1]]))):
                got = getattr(est, name)(X3)
                if not close(got, want):
                    bad.append(("C02.system-capture" if name == "system_capture" else "C02.relative-capture",
                                dict(q=name + "(3 axes)", **where0), want.tolist(), np.asarray(got).tolist()))
        # a system registered before on its own, narrower array domain must leave no trace once this system is
        # registered (A is computed once per registration from the estimator's own filters)
        if c["dom"]:
            eh = dreye.ReceptorEstimator(F.copy(), domain=np.array(dom, float).copy(), **kw)
            try:
                eh.register_system(S[:, 1:].copy(), domain=np.array(dom, float)[1:].copy())
                eh.system_capture(X)
                eh.capture(X[0] @ S[:, 1:], domain=np.array(dom, float)[1:].copy())
                pre = True
            except ValueError:
                pre = False          # "Cannot equalize domains": the two grids are too coarse to intersect
            if pre:
                eh.register_system(S.copy(), lb=np.zeros(S.shape[0]), ub=np.full(S.shape[0], 4.0))
                mixes = X @ S
                for name, got, want in (("A", eh.A, est.A), ("system_capture", eh.system_capture(X), est.system_capture(X)),
                                        ("system_relative_capture", eh.system_relative_capture(X), est.system_relative_capture(X)),
                                        ("capture(mix)", eh.capture(mixes), est.capture(mixes)),
                                        ("relative_capture(mix)", eh.relative_capture(mixes), est.relative_capture(mixes))):
                    if not close(got, want, 0):
                        bad.append(("C02.capture-matrix" if name == "A" else "C02.mixture", dict(q=name + " after own-domain system", **where0),
                                    np.asarray(want).tolist(), np.asarray(got).tolist()))
        # filter uncertainty given as SAMPLES of the filters (3-D, documented form): the system's capture matrix is still
        # that of the registered filters; the capture variance is the variance of the sampled captures (here: the
        # filters scaled by 1, 2, 3, so the variance is A^2 * var(1, 2, 3) = A^2 * 2/3)
        for when in ("constructor", "after-system"):
            samples = np.stack([F * m for m in (1.0, 2.0, 3.0)])
            if when == "constructor":
                eu = dreye.ReceptorEstimator(F.copy(), domain=dom, filters_uncertainty=samples, **kw)
                eu.register_system(S.copy(), lb=np.zeros(S.shape[0]), ub=np.full(S.shape[0], 4.0))
            else:
                eu = dreye.ReceptorEstimator(F.copy(), domain=dom, **kw)
                eu.register_system(S.copy(), lb=np.zeros(S.shape[0]), ub=np.full(S.shape[0], 4.0))
                eu.register_uncertainty(samples)
            wu = dict(uncertainty="3-D samples, " + when, **where0)
            if not close(eu.A, A, 0):
                bad.append(("C02.capture-matrix", dict(q="A", **wu), A.tolist(), np.asarray(eu.A).tolist()))
            if not close(eu.system_capture(X), Q) or not close(eu.system_relative_capture(X), R):
                bad.append(("C02.system-capture", dict(q="system_capture", **wu), Q.tolist(), np.asarray(eu.system_capture(X)).tolist()))
            if isinstance(eu.Epsilon, str) or not close(eu.Epsilon, A ** 2 * (2.0 / 3.0), 1e-12):
                bad.append(("C02.capture-variance", wu, (A ** 2 * (2.0 / 3.0)).tolist(), repr(eu.Epsilon)[:200]))
        # adaptation to a background: spectrum and intensity vector.  The SAME estimator that has already answered
        # the queries above is re-adapted (anything cached by a query must not survive the adaptation), and a fresh
        # one is used as well.
        one = np.ones(d)
        for k, r in enumerate(recs):
            if not r["adaptable"]:
                continue
            mix = X[k] @ S
            for label, obj in (("reused", est), ("fresh", None)):
                e2 = obj
                if e2 is None:
                    e2 = dreye.ReceptorEstimator(F.copy(), domain=dom, **kw)
                    e2.register_system(S.copy(), lb=np.zeros(S.shape[0]), ub=np.full(S.shape[0], 4.0))
                e2.register_background_adaptation(mix)
                if not close(e2.relative_capture(mix), one, 1e-12) or not close(e2.system_relative_capture(X[k]), one, 1e-12):
                    bad.append(("C02.adapted-is-one", dict(q="background", obj=label, **where0), one.tolist(),
                                [np.asarray(e2.relative_capture(mix)).tolist(), np.asarray(e2.system_relative_capture(X[k])).tolist()]))
                if K is not None:
                    e2.register_adaptation(K)
                    if not close(e2.system_relative_capture(X), R):
                        bad.append(("C02.relative-capture", dict(q="after re-registering K", obj=label, **where0), R.tolist(), np.asarray(e2.system_relative_capture(X)).tolist()))
                e2.register_system_adaptation(X[k])
                if not close(e2.system_relative_capture(X[k]), one, 1e-12) or not close(e2.relative_capture(mix), one, 1e-12):
                    bad.append(("C02.adapted-is-one", dict(q="system", obj=label, **where0), one.tolist(),
                                [np.asarray(e2.system_relative_capture(X[k])).tolist(), np.asarray(e2.relative_capture(mix)).tolist()]))
                if K is not None:
                    e2.register_adaptation(K)
                else:
                    e2.register_adaptation(1.0)
    except Exception as ex:
        bad.append(("C02.no-error", dict(exc=type(ex).__name__, **where0), None, repr(ex)[:200]))
    return bad


def _chunk(cs):
    return [replay_case(c) for c in cs]


def run(ctx):
    thorough = ctx.tier == "thorough"
    res = tlc.run("mc/MC_C02", cfg="mc/MC_C02_%s.cfg" % ("thorough" if thorough else "quick"), dump=True, timeout=3400)
    ctx.add_tlc(res)
    cases = [s for s in tlc.states_parallel(res, "out") if "recs" in s]
    tlc.cleanup(res)
    if not cases:
        raise MachineryFailure("no cases")
    parts = pmap(_chunk, [cases[i:i + 50] for i in range(0, len(cases), 50)], chunksize=1)
    flat = [b for p in parts for b in p]
    nad = 0
    for c, bad in zip(cases, flat):
        for clause, where, exp, obs in bad:
            ctx.violation(clause, where, c, exp, obs)
        ctx.evaluations += 1
        ctx.count("K:%s baseline:%s" % (c["kk"], c["bk"]))
        nad += sum(1 for r in c["recs"] if r["adaptable"])
        if c["kk"] != "none" or c["bk"] != "none":
            ctx.nontrivial.add(repr((c["F"], c["S"], c["dom"], c["p"], c["q"], c["kk"], c["Kn"], c["DK"], c["bk"], c["bl"])))
    ctx.traces += len(cases)
    ctx.extra["adaptation_cases"] = nad
    for c in cases[:: max(1, len(cases) // 3)][:3]:
        ctx.sample({k: (v if k != "recs" else v[:1]) for k, v in c.items()})
    if nad == 0:
        raise MachineryFailure("no adaptable background in the lattice (vacuous)")
    ctx.assumptions += ["lattice: 2-3 receptors, 1-4 sources, 3-4 domain points; round-off tolerance 1e-12 relative"]
    return ctx.finish(rule=RULE, exhaustive=True)


def replay(ctx, rep):
    bad = replay_case(rep["case"])
    for b in bad:
        print("still failing:", b[0], b[1])
    return 1 if bad else 0
