"""C15 — results are equivariant under a change of physical units."""
import itertools
import warnings

import numpy as np

from .. import tlc, dsys
from ..common import MachineryFailure, import_dreye, pmap

RULE = ("base cases = states of MC_C15 (lattice systems with target grids; exact class, optimum and range per target; "
        "TLC proves the unit-change theorems on the lattice for integer (s, c)); for every base case and every "
        "(s, c) in {1e-2..1e2}^2 the float twin (A*s*c, lb/s, ub/s, B*c, baseline*c) is run through in_hull, fit and "
        "range_of_solutions and compared with the scaled exact expectation; asserted when the twin is in the "
        "well-scaled regime (gamut extent in [1, 100], bounds in [0.05, 10]), recorded otherwise.  non-trivial = "
        "twin with (s, c) != (1, 1) in the regime; distinct = (system, s, c)")

SCALES = [1e-2, 1e-1, 1.0, 1e1, 1e2]


def twin_call(dreye, s, targets, sc, cc):
    from dreye.api.convex import in_hull_from_A, range_of_solutions
    from dreye.api.optimize.lsq_linear import lsq_linear
    A, lb, ub, K, bl = dsys.floats(s)
    Kf = None if K is None else np.atleast_1d(K)
    A2 = A * (sc * cc)
    lb2, ub2 = lb / sc, ub / sc
    bl2 = None if bl is None else np.asarray(bl) * cc
    B = np.array([dsys.b_float(s, t["b"]) for t in targets]) * cc
    out = {}
    out["in_hull"] = np.asarray(in_hull_from_A(B, A2, lb2, ub2, K=Kf, baseline=bl2)).astype(bool)
    X, Bp = lsq_linear(A2, B, lb=lb2, ub=ub2, K=Kf, baseline=bl2, return_pred=True)
    out["X"], out["Bp"] = X, Bp
    rows = [k for k, t in enumerate(targets) if t["lo"]]
    if rows:
        xmin, xmax = range_of_solutions(B[rows], A2, lb2, ub2, K=Kf, baseline=bl2)
        out["range"] = (rows, xmin, xmax)
    return out


def replay_state(st):
    dreye = import_dreye()
    s = st["sys"]
    targets = sorted(st["targets"], key=lambda t: t["b"])
    A, lb, ub, K, bl = dsys.floats(s)
    Kmat = np.asarray(s["Kn"], float) / s["DK"]
    blv = np.asarray(s["bl"], float) / s["D"]
    corners = np.array(list(itertools.product(*zip(lb, ub)))) @ A.T
    ext0 = np.max(np.abs((corners + blv) @ Kmat.T))
    where0 = dict(fam=st["fam"], **dsys.sys_where(s))
    bad, stress, n_assert = [], 0, 0
    for sc in SCALES:
        for cc in SCALES:
            ext = ext0 * cc
            regime = (1.0 <= ext <= 100.0) and np.all(ub / sc >= 0.05) and np.all(ub / sc <= 10.0)
            try:
                with warnings.catch_warnings():
                    warnings.simplefilter("ignore")
                    r = twin_call(dreye, s, targets, sc, cc)
            except Exception as ex:
                if regime:
                    bad.append(("C15.no-error", dict(exc=type(ex).__name__, s=sc, c=cc, **where0), None, repr(ex)[:200], None))
                else:
                    stress += 1
                continue
            viol = []
            for k, t in enumerate(targets):
                q = (np.asarray(t["q"], float) / t["den"] + np.asarray(s["blN"], float)) / (s["D"] * s["DK"]) * cc
                x = np.asarray(t["x"], float) / t["den"] / s["D"] / sc
                if t["cls"] == "interior" and not r["in_hull"][k]:
                    viol.append(("C15.membership", t, True, False))
                if t["cls"] == "exterior" and r["in_hull"][k]:
                    viol.append(("C15.membership", t, False, True))
                if np.max(np.abs(r["Bp"][k] - q)) > 2e-2:
                    viol.append(("C15.prediction", t, q.tolist(), r["Bp"][k].tolist()))
                if t["unique"] and A.shape[1] <= A.shape[0]:
                    smin = np.linalg.svd(Kmat @ A * (sc * cc), compute_uv=False).min()
                    if np.max(np.abs(r["X"][k] - x)) > 2e-2 / smin * np.sqrt(A.shape[0]) + 1e-2 * np.max(ub / sc - lb / sc):
                        viol.append(("C15.intensities", t, x.tolist(), r["X"][k].tolist()))
            if "range" in r:
                rows, xmin, xmax = r["range"]
                for j, k in enumerate(rows):
                    t = targets[k]
                    lo = np.array([n / d for n, d in t["lo"]]) / s["D"] / sc
                    hi = np.array([n / d for n, d in t["hi"]]) / s["D"] / sc
                    if np.max(np.abs(xmin[j] - lo)) > 1e-7 * max(1.0, 1 / sc) or np.max(np.abs(xmax[j] - hi)) > 1e-7 * max(1.0, 1 / sc):
                        viol.append(("C15.range", t, [lo.tolist(), hi.tolist()], [xmin[j].tolist(), xmax[j].tolist()]))
            if regime:
                n_assert += 1
                for clause, t, e, o in viol:
                    bad.append((clause, dict(s=sc, c=cc, **where0), e, o, t))
            else:
                stress += len(viol)
    return bad, stress, n_assert


def relational_twins(args):
    """Beyond the lattice (4-5 receptors, 6-8 sources, real-valued entries): no exact expectation is available, but the
    property itself relates the two twins: membership equal, ranges and unique intensities * s equal, predictions / c equal."""
    seed, n = args
    import_dreye()
    from dreye.api.convex import in_hull_from_A, range_of_solutions
    from dreye.api.optimize.lsq_linear import lsq_linear
    rng = np.random.default_rng(seed)
    bad, done = [], 0
    for _ in range(n):
        d = int(rng.integers(4, 6))
        m = d + int(rng.integers(1, 3))
        if rng.random() < 0.6:
            # tutorial-shaped: broad overlapping receptor sensitivities x narrow-band sources (strongly correlated rows)
            wl = np.arange(300.0, 701.0, 2.0)
            g = lambda mu, sd: np.exp(-0.5 * ((wl - mu) / sd) ** 2)
            fp = np.sort(rng.uniform(340, 520, d))
            lp = np.sort(rng.uniform(360, 600, m))
            F = np.array([g(mu, 55.0) for mu in fp])
            L = np.array([g(mu, 18.0) for mu in lp])
            L = L / L.sum(axis=1, keepdims=True)
            A = F @ L.T
            A = A / (A @ np.full(m, 5.0)).min()
        else:
            A = rng.uniform(0.02, 0.2, (d, m))
        lb, ub = np.zeros(m), np.full(m, 10.0)
        Xin = rng.uniform(2.0, 8.0, (3, m))               # strictly inside the bounds
        B = Xin @ A.T
        Bout = B[:1] * 4.0                                 # far outside
        where0 = dict(nrec=d, nsrc=m, relational=True)
        try:
            base_r = range_of_solutions(B, A, lb, ub)
            base_in = in_hull_from_A(np.vstack([B, Bout]), A, lb, ub)
            base_fit = lsq_linear(A, np.vstack([B, Bout]), lb=lb, ub=ub, return_pred=True, solver="CLARABEL")
            for sc, cc in ((10.0, 10.0), (100.0, 1.0), (0.5, 20.0), (200.0, 0.5)):
                ext = np.max(B) * cc
                if not (1.0 <= ext <= 100.0 and 0.05 <= 10.0 / sc <= 10.0):
                    continue
                A2, ub2 = A * sc * cc, ub / sc
                tw_r = range_of_solutions(B * cc, A2, lb, ub2)
                tw_in = in_hull_from_A(np.vstack([B, Bout]) * cc, A2, lb, ub2)
                tw_fit = lsq_linear(A2, np.vstack([B, Bout]) * cc, lb=lb, ub=ub2, return_pred=True, solver="CLARABEL")
                done += 1
                w = dict(s=sc, c=cc, **where0)
                if not np.array_equal(base_in, tw_in):
                    bad.append(("C15.membership", w, base_in.tolist(), tw_in.tolist(), None))
                for a, b in zip(base_r, tw_r):
                    if np.max(np.abs(a - b * sc)) > 1e-6 * 10:
                        bad.append(("C15.range", w, a.tolist(), (b * sc).tolist(), None))
                        break
                if np.max(np.abs(base_fit[1] - tw_fit[1] / cc)) > 2e-2 / min(1.0, cc) * 2:
                    bad.append(("C15.prediction", w, base_fit[1].tolist(), (tw_fit[1] / cc).tolist(), None))
        except Exception as ex:
            bad.append(("C15.no-error", dict(exc=type(ex).__name__, **where0), None, repr(ex)[:200], None))
    return bad, done


def run(ctx):
    thorough = ctx.tier == "thorough"
    res = tlc.run("mc/MC_C15", cfg="mc/MC_C15_%s.cfg" % ("thorough" if thorough else "quick"), dump=True, timeout=3400)
    ctx.add_tlc(res)
    sts = [s for s in tlc.states_parallel(res, "out") if "targets" in s]
    tlc.cleanup(res)
    if not sts or not any(s["theorem_checked"] for s in sts):
        raise MachineryFailure("no base cases / theorems never checked")
    parts = pmap(replay_state, sts, chunksize=1)
    stress_tot = 0
    for st, (bad, stress, n_assert) in zip(sts, parts):
        for clause, where, exp, obs, t in bad:
            ctx.violation(clause, where, dict(sys=st["sys"], target=t, fam=st["fam"]), exp, obs)
        stress_tot += stress
        ctx.evaluations += len(SCALES) ** 2
        ctx.count("asserted_twins", n_assert)
        ctx.count("systems:" + st["fam"])
        for k in range(n_assert):
            ctx.nontrivial.add((repr(st["sys"]), k))
    nrel = 0
    for bad, done in pmap(relational_twins, [(ctx.seed * 100 + k, 6 if not thorough else 20) for k in range(16)], chunksize=1):
        nrel += done
        for clause, where, exp, obs, t in bad:
            ctx.violation(clause, where, dict(relational=True), exp, obs)
    ctx.extra["relational_twin_pairs_beyond_lattice"] = nrel
    ctx.traces += len(sts) * len(SCALES) ** 2
    ctx.extra["stress_disagreements"] = stress_tot
    ctx.extra["theorem_checked_systems"] = sum(1 for s in sts if s["theorem_checked"])
    for st in sts[:2]:
        ctx.sample(dict(sys=st["sys"], targets=st["targets"][:2]))
    ctx.assumptions += ["asserted only for twins in the well-scaled regime of C04; outside it disagreements are counted (stress_disagreements), never asserted"]
    return ctx.finish(rule=RULE, exhaustive=True)


def replay(ctx, rep):
    c = rep["case"]
    st = dict(fam=c.get("fam", "?"), sys=c["sys"], targets=[c["target"]] if c.get("target") else [])
    if not st["targets"]:
        return 1
    bad, _, _ = replay_state(st)
    for b in bad:
        print("still failing:", b[0], b[1])
    return 1 if bad else 0
