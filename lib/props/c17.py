"""C17 — hull projections return the nearest point, the boundary hit and the exact slice."""
import random

import numpy as np

from .. import tlc
from ..common import MachineryFailure, import_dreye, pmap

RULE = ("MC_C17: lattice clouds in 2-D / 3-D with exact integer facets and vertices, a query lattice with exact "
        "inside flags and exact boundary multiples alpha (TLC: alpha*b satisfies every facet, one with equality), and "
        "exact slices of non-negative clouds; alpha_for_B_with_P / B_with_P are compared with the exact rationals "
        "(integer facets and scipy's facets); proj_B_to_hull and proj_P_to_simplex outputs of these and of random "
        "larger clouds (2-5-D, coplanar points, fewer points than dimensions) are logged in fixed point and validated "
        "by Trace_C17 under TLC: facet membership + variational inequality against every exact vertex (nearest point), "
        "inside unchanged, slice on the plane with support function equal to the exact slice in all directions of "
        "{-2..2}^d.  non-trivial = query outside the hull / slice with >= 2 points; distinct = (cloud, query)")

S = 1000
TOL = 2   # fixed-point units


def fr(r):
    return r[0] / r[1]


def eqs_from_facets(F):
    return np.array([list(f["nu"]) + [-f["h"]] for f in F], float)


def replay_state(st):
    dreye = import_dreye()
    from scipy.spatial import ConvexHull
    bad, events = [], []
    if st["kind"] == "hull":
        P = np.array(sorted(st["P"]), float)
        d = P.shape[1]
        qs = sorted(st["queries"], key=lambda q: q["b"])
        Bq = np.array([q["b"] for q in qs], float)
        where0 = dict(kind="hull", d=d, npts=len(P))
        for src in ("exact-facets", "scipy-facets"):
            try:
                E = eqs_from_facets(st["F"]) if src == "exact-facets" else ConvexHull(P).equations
                w = dict(facets=src, **where0)
                if st["origin_inside"]:
                    al = np.asarray(dreye.alpha_for_B_with_P(Bq.copy(), E.copy()), float)
                    hit = np.asarray(dreye.B_with_P(Bq.copy(), E.copy()), float)
                    for k, q in enumerate(qs):
                        a = fr(q["alpha"])
                        if abs(al[k] - a) > 1e-9 * (1 + a):
                            bad.append(("C17.boundary-multiple", w, a, float(al[k]), q))
                        if np.max(np.abs(hit[k] - a * Bq[k])) > 1e-9 * (1 + a) * 4:
                            bad.append(("C17.boundary-multiple", dict(op="B_with_P", **w), (a * Bq[k]).tolist(), hit[k].tolist(), q))
                    # the boundary multiple is homogeneous of degree -1 in the query: tiny and huge query vectors
                    # (exact powers of two, so the twins are exact in floating point)
                    for kk in (2.0 ** -40, 2.0 ** 40):
                        alk = np.asarray(dreye.alpha_for_B_with_P(Bq * kk, E.copy()), float)
                        hitk = np.asarray(dreye.B_with_P(Bq * kk, E.copy()), float)
                        fin = np.isfinite(al)
                        if np.any(fin) and (np.any(~np.isfinite(alk[fin])) or np.max(np.abs(alk[fin] * kk - al[fin]) / (1 + np.abs(al[fin]))) > 1e-9):
                            bad.append(("C17.boundary-multiple", dict(representation="query scaled by %g" % kk, **w), al.tolist(), (alk * kk).tolist(), None))
                        elif np.any(fin) and np.max(np.abs(hitk[fin] - hit[fin])) > 1e-8 * (1 + np.max(np.abs(hit[fin]))):
                            bad.append(("C17.boundary-multiple", dict(op="B_with_P", representation="query scaled by %g" % kk, **w), hit.tolist(), hitk.tolist(), None))
                X = np.asarray(dreye.proj_B_to_hull(Bq.copy(), E.copy()), float)
                # the same (integer-valued) queries handed over as an integer array, and read-only
                Xi = np.asarray(dreye.proj_B_to_hull(Bq.astype(int), E.copy()), float)
                ro = Bq.copy()
                ro.setflags(write=False)
                Xr = np.asarray(dreye.proj_B_to_hull(ro, E.copy()), float)
                if Xi.shape != X.shape or np.max(np.abs(Xi - X)) > 1e-9 or np.max(np.abs(Xr - X)) > 1e-12:
                    bad.append(("C17.nearest-point", dict(representation="int / read-only queries", **w), X.tolist(), Xi.tolist(), None))
                if st["origin_inside"]:
                    ali = np.asarray(dreye.alpha_for_B_with_P(Bq.astype(int), E.copy()), float)
                    if np.max(np.abs(ali - al)) > 1e-12 * (1 + np.max(np.abs(al))):
                        bad.append(("C17.boundary-multiple", dict(representation="int queries", **w), al.tolist(), ali.tolist(), None))
                events.append(dict(ev="proj", P=[[int(v) for v in p] for p in P], bs=[[int(v) for v in b] for b in Bq],
                                   xs=[[int(round(v * S)) for v in x] for x in X], S=S, tol=TOL, meta=w))
            except Exception as ex:
                bad.append(("C17.no-error", dict(exc=type(ex).__name__, facets=src, **where0), None, repr(ex)[:200], None))
    else:
        P = np.array(sorted(st["P"]), float)
        for sl in st["slices"]:
            w = dict(kind="slice", d=P.shape[1], npts=len(P))
            try:
                R = np.asarray(dreye.proj_P_to_simplex(P.copy(), float(sl["c"])), float)
                events.append(dict(ev="slice", P=[[int(v) for v in p] for p in P], c=int(sl["c"]),
                                   rs=[[int(round(v * S)) for v in r] for r in R], S=S, tol=TOL, meta=w))
            except Exception as ex:
                bad.append(("C17.no-error", dict(exc=type(ex).__name__, **w), None, repr(ex)[:200], sl["c"]))
    return bad, events


def random_events(seed, n):
    """larger / higher-dimensional clouds: projection and slice outputs for the trace spec"""
    dreye = import_dreye()
    from scipy.spatial import ConvexHull
    rng = random.Random(seed)
    events, bad = [], []
    for _ in range(n):
        d = rng.choice([2, 2, 3, 3, 4, 5])
        kind = rng.choice(["proj", "slice"])
        if kind == "proj":
            m = rng.randint(d + 1, d + 4)
            P = {tuple(rng.randint(-3, 3) for _ in range(d)) for _ in range(m)}
            if rng.random() < 0.4:   # lattice-like with coplanar points
                P |= {tuple((p[i] + q[i]) // 2 for i in range(d)) for p in list(P)[:2] for q in list(P)[1:3]}
            P = np.array(sorted(P), float)
            try:
                E = ConvexHull(P).equations
            except Exception:
                continue
            Bq = np.array([[rng.randint(-5, 5) for _ in range(d)] for _ in range(6)], float)
            try:
                X = np.asarray(dreye.proj_B_to_hull(Bq.copy(), E.copy()), float)
                events.append(dict(ev="proj", P=P.astype(int).tolist(), bs=Bq.astype(int).tolist(),
                                   xs=[[int(round(v * S)) for v in x] for x in X], S=S, tol=TOL, meta=dict(kind="hull", d=d, npts=len(P), facets="scipy-facets", random=True)))
            except Exception as ex:
                bad.append(("C17.no-error", dict(exc=type(ex).__name__, kind="hull", d=d, random=True), None, repr(ex)[:200], P.tolist()))
        else:
            m = rng.choice([d - 1, d, d + 1, d + 3]) if d > 2 else rng.randint(2, 5)
            m = max(2, m)
            P = {tuple(rng.randint(0, 4) for _ in range(d)) for _ in range(m)}
            if len(P) < 2:
                continue
            P = np.array(sorted(P), float)
            sums = P.sum(1)
            if sums.max() - sums.min() < 2:
                continue
            c = rng.randint(int(sums.min()) + 1, int(sums.max()) - 1)
            try:
                R = np.asarray(dreye.proj_P_to_simplex(P.copy(), float(c)), float)
                events.append(dict(ev="slice", P=P.astype(int).tolist(), c=c, rs=[[int(round(v * S)) for v in r] for r in R], S=S, tol=TOL,
                                   meta=dict(kind="slice", d=d, npts=len(P), random=True, fewer_points_than_dims=len(P) <= d)))
            except Exception as ex:
                bad.append(("C17.no-error", dict(exc=type(ex).__name__, kind="slice", d=d, npts=len(P), random=True, fewer_points_than_dims=len(P) <= d), None, repr(ex)[:200], [P.tolist(), c]))
    return bad, events


def _rand(args):
    return random_events(*args)


def run(ctx):
    thorough = ctx.tier == "thorough"
    res = tlc.run("mc/MC_C17", cfg="mc/MC_C17_%s.cfg" % ("thorough" if thorough else "quick"), dump=True, timeout=3400)
    ctx.add_tlc(res)
    sts = [s for s in tlc.states_parallel(res, "out") if "kind" in s]
    tlc.cleanup(res)
    if not sts:
        raise MachineryFailure("no states")
    parts = pmap(replay_state, sts, chunksize=1)
    events = []
    for st, (bad, ev) in zip(sts, parts):
        for clause, where, exp, obs, q in bad:
            ctx.violation(clause, where, dict(P=st["P"], query=q), exp, obs)
        events += ev
        if st["kind"] == "hull":
            for q in st["queries"]:
                ctx.evaluations += 1
                if not q["inside"]:
                    ctx.nontrivial.add((repr(st["P"]), tuple(q["b"])))
    nr = 40 if thorough else 12
    rparts = pmap(_rand, [(ctx.seed * 1000 + k, 25) for k in range(nr)], chunksize=1)
    for bad, ev in rparts:
        for clause, where, exp, obs, q in bad:
            ctx.violation(clause, where, dict(case=q), exp, obs)
        events += ev
    trace = []
    for i, e in enumerate(events):
        t = {k: v for k, v in e.items() if k != "meta"}
        t["i"] = i + 1
        trace.append(t)
    tres, badl, path = tlc.validate_trace("Trace_C17", trace, "C17", timeout=3000)
    ctx.add_tlc(tres)
    ctx.traces += len(trace)
    ctx.evaluations += len(trace)
    for _, idx, clause in badl:
        e = events[idx - 1]
        ctx.violation(clause, e["meta"], {k: v for k, v in e.items() if k != "meta"}, None, None)
    for e in events:
        ctx.count("trace:%s:d=%d" % (e["ev"], e["meta"]["d"]))
        if e["ev"] == "slice" and len(e["rs"]) >= 2:
            ctx.nontrivial.add(("slice", repr(e["P"]), e["c"]))
    ctx.sample({k: v for k, v in events[0].items() if k != "meta"})
    ctx.sample(dict(P=sts[0]["P"], queries=sts[0].get("queries", [])[:3]))
    ctx.assumptions += ["outputs logged in fixed point 1e-3; tolerance 2 units", "slice equality checked through support functions on the finite direction set {-2..2}^d (necessary condition)"]
    return ctx.finish(rule=RULE, exhaustive=True)


def replay(ctx, rep):
    """No case-level replay for this property (the failing case depends on recorded / random executions or on the
    spec's answers): re-run the whole quick check against the current tree; exit 0 iff nothing is violated any more."""
    print("replaying by re-running the check; recorded case:", str(rep.get("case"))[:300])
    return run(ctx)
