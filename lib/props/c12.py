"""C12 — gamut-corrective scalings keep hue and ratios and land in the chromatic gamut."""
import numpy as np

from .. import tlc, dsys
from ..common import MachineryFailure, import_dreye, pmap

RULE = ("one TLC state per (lattice system, neutral point); target sets of 1-2 rows (incl. an all-zero row) from a "
        "lattice spanning inside and far outside the gamut; exact intensity scaling (common factor, largest capture = "
        "smallest single-source maximum) and exact chromatic scaling (common contraction = smallest exit multiple over "
        "the exact cone facets of the chromatic gamut; identity when all inside; totals preserved; result inside: TLC "
        "invariants); replayed into gamut_l1_scaling / gamut_dist_scaling (dichromat, trichromat, tetrachromat; "
        "default and explicit neutral point; relative and absolute capture).  non-trivial = set with a row outside "
        "the chromatic gamut; distinct = (system, neutral, target set)")


def fr(r):
    return r[0] / r[1]


def replay_state(st):
    dreye = import_dreye()
    s = st["sys"]
    nu0 = np.asarray(st["nu0"], float)
    default_neutral = bool(np.all(nu0 == 1))
    S = s["D"] * s["DK"]
    where0 = dict(fam=st["fam"], default_neutral=default_neutral, **dsys.sys_where(s))
    bad = []
    est = dsys.make_estimator(dreye, s)
    plain = s["kk"] == "none" and s["bk"] == "none"
    n = 0
    for c in sorted(st["cases"], key=lambda c: c["Bs"]):
        B = np.asarray(c["Bs"], float) / S
        has_zero = bool(np.any(np.all(B == 0, axis=1)))
        w = dict(rows=len(B), zero_row=has_zero, allin=c["dist"]["allin"], **where0)
        n += 1
        # ---- intensity (L1) scaling
        if default_neutral:
            try:
                got = np.asarray(est.gamut_l1_scaling(B.copy()), float)
                want = np.array([[fr(v) for v in row] for row in c["l1"]]) / S
                if got.shape != want.shape or np.max(np.abs(got - want)) > 1e-9 * (1 + np.max(np.abs(want))):
                    bad.append(("C12.l1-scaling", w, want.tolist(), got.tolist(), c))
                if plain:
                    got2 = np.asarray(est.gamut_l1_scaling(B.copy(), relative=False), float)
                    if np.max(np.abs(got2 - want)) > 1e-9 * (1 + np.max(np.abs(want))):
                        bad.append(("C12.l1-scaling", dict(relative=False, **w), want.tolist(), got2.tolist(), c))
            except Exception as ex:
                bad.append(("C12.no-error", dict(op="gamut_l1_scaling", exc=type(ex).__name__, **w), None, repr(ex)[:200], c))
        # ---- chromatic (distance) scaling
        if not c["dist"]["ok"] or not c["dist"]["strictly"]:
            continue   # neutral point not strictly inside / a row exactly on the chromatic boundary: not asserted
        want = np.array([[fr(v) for v in row] for row in c["dist"]["out"]]) / S
        for rel in ([True, False] if plain else [True]):
            kw = {} if default_neutral else {"neutral_point": nu0.copy()}
            try:
                got = np.asarray(est.gamut_dist_scaling(B.copy(), relative=rel, **kw), float)
                if got.shape != want.shape or np.max(np.abs(got - want)) > 1e-7 * (1 + np.max(np.abs(want))):
                    bad.append(("C12.dist-scaling", dict(relative=rel, **w), want.tolist(), got.tolist(), c))
            except Exception as ex:
                bad.append(("C12.no-error", dict(op="gamut_dist_scaling", relative=rel, exc=type(ex).__name__, **w), None, repr(ex)[:200], c))
            # the same values in other representations: the neutral point normalised to sum 1 (only its direction
            # matters), and integer-valued target sets handed over as an integer array
            reps = [("neutral-normalised", B.copy(), {"neutral_point": nu0 / nu0.sum()})]
            if np.all(B == np.rint(B)):
                reps.append(("int-targets", B.astype(int), {"neutral_point": nu0 / nu0.sum()}))
                reps.append(("int-targets-default-neutral", B.astype(int), kw))
            for rname, Brep, kwr in reps:
                if rname == "int-targets-default-neutral" and not default_neutral:
                    continue
                try:
                    got = np.asarray(est.gamut_dist_scaling(Brep, relative=rel, **kwr), float)
                    if got.shape != want.shape or np.max(np.abs(got - want)) > 1e-7 * (1 + np.max(np.abs(want))):
                        bad.append(("C12.dist-scaling", dict(relative=rel, representation=rname, **w), want.tolist(), got.tolist(), c))
                except Exception as ex:
                    bad.append(("C12.no-error", dict(op="gamut_dist_scaling", relative=rel, representation=rname, exc=type(ex).__name__, **w), None, repr(ex)[:200], c))
    # capture-unit twins: the same plain system measured in a tiny physical unit (power of two: exact in floating
    # point).  Absolute scalings of u * B must be u times the scalings of B.
    if plain:
        U = 2.0 ** -30
        try:
            A, lb, ub, K, bl = dsys.floats(s)
            F, Ssrc = dsys.filters_sources(A)
            estu = dreye.ReceptorEstimator(F * U, domain=1.0)
            estu.register_system(Ssrc, lb=lb, ub=ub)
            for c in sorted(st["cases"], key=lambda c: c["Bs"])[::3]:
                B = np.asarray(c["Bs"], float) / S
                w = dict(rows=len(B), unit="2^-30", allin=c["dist"]["allin"], **where0)
                if default_neutral:
                    want = np.array([[fr(v) for v in row] for row in c["l1"]]) / S
                    got = np.asarray(estu.gamut_l1_scaling(B * U, relative=False), float) / U
                    if got.shape != want.shape or np.max(np.abs(got - want)) > 1e-9 * (1 + np.max(np.abs(want))):
                        bad.append(("C12.l1-scaling", w, want.tolist(), got.tolist(), c))
                if c["dist"]["ok"] and c["dist"]["strictly"]:
                    want = np.array([[fr(v) for v in row] for row in c["dist"]["out"]]) / S
                    kw = {} if default_neutral else {"neutral_point": nu0.copy()}
                    got = np.asarray(estu.gamut_dist_scaling(B * U, relative=False, **kw), float) / U
                    if got.shape != want.shape or np.max(np.abs(got - want)) > 1e-7 * (1 + np.max(np.abs(want))):
                        bad.append(("C12.dist-scaling", w, want.tolist(), got.tolist(), c))
        except Exception as ex:
            bad.append(("C12.no-error", dict(op="capture-unit twin", exc=type(ex).__name__, **where0), None, repr(ex)[:200], None))
    # absolute capture on a system with adaptation / baseline registered: must equal the plain system's answer
    if not plain:
        try:
            A, lb, ub, K, bl = dsys.floats(s)
            F, Ssrc = dsys.filters_sources(A)
            est0 = dreye.ReceptorEstimator(F, domain=1.0)
            est0.register_system(Ssrc, lb=lb, ub=ub)
            kw = {} if default_neutral else {"neutral_point": nu0.copy()}
            for c in sorted(st["cases"], key=lambda c: c["Bs"])[::7]:
                B = np.asarray(c["Bs"], float) / S
                r1 = np.asarray(est.gamut_dist_scaling(B.copy(), relative=False, **kw), float)
                r0 = np.asarray(est0.gamut_dist_scaling(B.copy(), relative=True, **kw), float)
                if r1.shape != r0.shape or np.max(np.abs(r1 - r0)) > 1e-9 * (1 + np.max(np.abs(r0))):
                    bad.append(("C12.dist-scaling", dict(relative=False, differential=True, rows=len(B), **where0), r0.tolist(), r1.tolist(), c))
                l1 = np.asarray(est.gamut_l1_scaling(B.copy(), relative=False), float)
                l0 = np.asarray(est0.gamut_l1_scaling(B.copy()), float)
                if np.max(np.abs(l1 - l0)) > 1e-9 * (1 + np.max(np.abs(l0))):
                    bad.append(("C12.l1-scaling", dict(relative=False, differential=True, rows=len(B), **where0), l0.tolist(), l1.tolist(), c))
        except Exception as ex:
            bad.append(("C12.no-error", dict(op="absolute-vs-plain", exc=type(ex).__name__, **where0), None, repr(ex)[:200], None))
    return bad, n


def run(ctx):
    thorough = ctx.tier == "thorough"
    res = tlc.run("mc/MC_C12", cfg="mc/MC_C12_%s.cfg" % ("thorough" if thorough else "quick"), dump=True, timeout=3400)
    ctx.add_tlc(res)
    sts = [s for s in tlc.states_parallel(res, "out") if "cases" in s]
    tlc.cleanup(res)
    if not sts:
        raise MachineryFailure("no states")
    nout = sum(1 for s in sts for c in s["cases"] if c["dist"]["ok"] and not c["dist"]["allin"])
    nin = sum(1 for s in sts for c in s["cases"] if c["dist"]["ok"] and c["dist"]["allin"])
    if not nout or not nin:
        raise MachineryFailure("vacuous lattice: outside=%d inside=%d" % (nout, nin))
    parts = pmap(replay_state, sts, chunksize=1)
    for st, (bad, n) in zip(sts, parts):
        for clause, where, exp, obs, c in bad:
            ctx.violation(clause, where, dict(sys=st["sys"], nu0=st["nu0"], case=c, fam=st["fam"]), exp, obs)
        ctx.evaluations += n
        ctx.count("states:%s:%d-chromat" % (st["fam"], len(st["sys"]["A"])))
        for c in st["cases"]:
            if not c["dist"]["allin"]:
                ctx.nontrivial.add((repr(st["sys"]), tuple(st["nu0"]), repr(c["Bs"])))
    ctx.traces += len(sts)
    ctx.extra.update(sets_with_row_outside=nout, sets_all_inside=nin)
    ctx.sample(dict(sys=sts[0]["sys"], nu0=sts[0]["nu0"], case=sts[0]["cases"][0]))
    ctx.assumptions += ["rows exactly on the chromatic gamut boundary and neutral points not strictly inside are not asserted"]
    return ctx.finish(rule=RULE, exhaustive=True)


def replay(ctx, rep):
    c = rep["case"]
    st = dict(fam=c.get("fam", "?"), sys=c["sys"], nu0=c["nu0"], cases=[c["case"]])
    bad, _ = replay_state(st)
    for b in bad:
        print("still failing:", b[0], b[1], b[3])
    return 1 if bad else 0
