"""C14 — estimator answers depend only on what is currently registered; queries are pure."""
import random
from fractions import Fraction

import numpy as np

from .. import tlc, dsys
from ..common import MachineryFailure, import_dreye, pmap

RULE = ("histories = states of MC_C14 (Estimator.tla): every call sequence up to the tree depth over the alphabet "
        "{register_system, register_bounds, register_adaptation, register_baseline, register_background_adaptation "
        "(add/replace, +-baseline), register_system_adaptation, register_targets, fit(), query} and one witness "
        "history per distinct registered state up to the graph depth (TLC explores all of them; where a configuration "
        "has more than a few thousand, a seeded sample is replayed).  Each history is replayed into a fresh "
        "ReceptorEstimator; after it all light answers (K, baseline, bounds, captures, relative captures, system "
        "captures, gamut classes of probe targets, flags) are compared with Answers(regState) of the spec, all heavy "
        "answers (fit, range_of_solutions, sampling, gamut metric, chromatic membership) with a fresh object built "
        "from the spec's registered state, every query is issued twice (purity) and caller arrays are compared "
        "byte-wise.  Each history is replayed in three representations: lazy (queries only where the history has "
        "one), eager (all queries after every step) and arraydom (eager, filters on an array domain, sources and "
        "backgrounds handed over on their own narrower domain); the target buffer is overwritten by the caller "
        "after register_targets.  non-trivial = history with >= 2 registration calls; distinct = history")

# pools: must mirror MC_C14.tla (checked against the spec's answers at run time)
FILTERS = np.array([[0, 1, 0, 0], [0, 0, 1, 0]], float)
SRC = {1: np.array([[0, 2, 1, 0], [0, 1, 3, 0]], float), 2: np.array([[0, 3, 0, 0], [0, 1, 1, 0], [0, 0, 2, 0]], float)}
F = Fraction
BOUNDS = {1: (None, [F(1), F(1)]), 2: ([F(1, 4), F(1, 4)], [F(2), F(2)]), 3: ([F(1, 2), F(0)], None),
          4: (None, [F(1), F(1), F(1)]), 5: ([F(1, 4), F(0), F(1, 4)], [F(2), F(1), F(2)]), 6: (None, None),
          7: ([F(3, 2), F(3, 2)], None), 8: (None, [F(3), F(3)])}
KPOOL = {1: 0.5, 2: np.array([1.0, 0.5]), 3: np.array([[1.0, 0.0], [0.5, 1.0]])}
BLPOOL = {1: 0.0, 2: 0.5, 3: np.array([0.25, 0.5])}
BG = {1: np.array([0, 2, 1, 0], float), 2: np.array([0, 1, 3, 0], float)}
XA = {1: np.array([1.0, 1.0]), 2: np.array([1.0, 1.0, 1.0]), 3: np.array([2.0, 0.0, 1.0])}
WPOOL = {1: np.array([2.0, 1.0]), 2: np.array([1.0, 3.0])}
UNC = {1: np.array([[0, 1, 0, 0], [0, 0, 2, 0]], float), 2: np.array([[0, 2, 1, 0], [0, 1, 1, 0]], float)}
TGT = {1: np.array([[1.0, 1.0], [3.5, 0.25]]), 2: np.array([[0.5, 1.5]])}
PROBES = np.array([[0.5, 0.25], [1.5, 1.5], [0.75, 2.5], [3.5, 0.5], [3.5, 3.5]])
# representation "arraydom": the same abstract filters / spectra on an array domain of six points.  The second filter
# has a further lobe at index 4, where every pool spectrum is zero (so all pool captures are unchanged); sources and
# adaptation backgrounds are handed over on their own, narrower domain DOM[:4], queries on the filters' domain.
DOM = np.arange(6.0)
FILTERS6 = np.array([[0, 1, 0, 0, 0, 0], [0, 0, 1, 0, 1, 0]], float)
WIDE = np.array([[0, 0, 1, 0, 2, 0], [0, 1, 0, 0, 1, 0]], float)


def pad6(a):
    a = np.asarray(a, float)
    return np.concatenate([a, np.zeros(a.shape[:-1] + (2,))], axis=-1)


def new_estimator(dreye, arraydom, **kw):
    if arraydom:
        return dreye.ReceptorEstimator(FILTERS6.copy(), domain=DOM.copy(), **kw)
    return dreye.ReceptorEstimator(FILTERS.copy(), domain=1.0, **kw)


def fitems(f):
    """TLC prints a function with domain 1..n as a tuple, any other finite function as (a :> b @@ ...)."""
    if isinstance(f, dict):
        return [(int(k), v) for k, v in f.items()]
    return [(i + 1, v) for i, v in enumerate(f)]


def fl(r):
    return np.inf if r[0] == dsys.INF else r[0] / r[1]


def fvec(v):
    return np.array([fl(r) for r in v], float)


def fmat(m):
    return np.array([[fl(r) for r in row] for row in m], float)


def apply(dreye, obj, a, shadow):
    """Apply one history action to the object.  shadow: dict with current B (harness-carried)."""
    op, k = a["op"], a["k"]
    own = dict(domain=DOM[:4].copy()) if shadow.get("arraydom") else {}
    if op == "register_system":
        sk, bk = divmod(k, 100)
        lb, ub = BOUNDS[bk]
        obj.register_system(SRC[sk].copy(), lb=None if lb is None else np.array(lb, float), ub=None if ub is None else np.array(ub, float), **own)
    elif op == "register_system_bad":
        ubbad = np.full(len(SRC[k]), np.inf)
        ubbad[0] = 1.0
        try:
            obj.register_system(SRC[k].copy(), ub=ubbad, **own)
        except AssertionError:
            return
        raise MachineryFailure("register_system with partly infinite upper bounds did not raise")
    elif op == "register_bounds":
        lb, ub = BOUNDS[k]
        obj.register_bounds(lb=None if lb is None else np.array(lb, float), ub=None if ub is None else np.array(ub, float))
    elif op == "register_adaptation":
        v = KPOOL[k]
        obj.register_adaptation(v.copy() if isinstance(v, np.ndarray) else v)
    elif op == "register_baseline":
        v = BLPOOL[k]
        obj.register_baseline(v.copy() if isinstance(v, np.ndarray) else v)
    elif op == "register_background_adaptation":
        obj.register_background_adaptation(BG[k].copy(), add_baseline=a["ab"], add=a["add"], **own)
    elif op == "register_system_adaptation":
        obj.register_system_adaptation(XA[k].copy(), add_baseline=a["ab"], add=a["add"])
    elif op == "register_targets":
        tk, wk = divmod(k, 10)
        buf = TGT[tk].copy()
        if wk:
            obj.register_targets(buf, W=WPOOL[wk].copy())
        else:
            obj.register_targets(buf)
        # target_B is a plain record of the argument (it aliases the caller's array and feeds no query): it is read
        # here, before the caller re-uses its buffer; what the queries use (B) must be the value handed over
        shadow["target_B"] = np.array(obj.target_B, float)
        buf[...] = 97.0
        shadow["B"] = TGT[tk].copy()
    elif op == "register_uncertainty":
        obj.register_uncertainty(None if k == 0 else (pad6(UNC[k]) if shadow.get("arraydom") else UNC[k].copy()))
    elif op == "fit":
        shadow["pre_fit"] = True
        internal_fit(obj, k)
    elif op == "query":
        heavy(obj, shadow.get("arraydom"))
    else:
        raise MachineryFailure("unknown op %r" % op)


def internal_fit(obj, kind):
    """the fitting methods in their internal mode (no explicit targets): X and B are stored on the object"""
    if kind == 0:
        obj.fit()
    elif kind == 1:
        obj.fit_underdetermined(l2_eps=1e-4)
    elif kind == 2:
        obj.minimize_variance(l2_eps=1e-3)
    elif kind == 3:
        obj.fit_adaptive(solver="CLARABEL")
    else:
        raise MachineryFailure("unknown fit kind %r" % kind)


def fresh_from(dreye, est, B=None, arraydom=False):
    """A brand-new object built directly from the spec's registered state."""
    K = fmat(est["K"])
    ks = est["kshape"]
    Kv = K[0, 0] if ks == "1" else (np.diag(K).copy() if ks == "d" else K)
    bl = fvec(est["bl"])
    blv = bl[0] if est["blshape"] == "1" else bl
    obj = new_estimator(dreye, arraydom, K=Kv, baseline=blv)
    if est["reg"]:
        A = np.array(est["A"], float)
        _, S = dsys.filters_sources(A)
        if arraydom:
            S = pad6(S)
        ub = fvec(est["ub"])
        # the variance matrix of the spec's state is handed over explicitly (not recomputed from an uncertainty)
        eps = dict(Epsilon=np.array(est["Eps"], float)) if len(est["Eps"]) else {}
        obj.register_system(S, lb=fvec(est["lb"]), ub=(None if np.all(np.isinf(ub)) else ub), **eps)
        if B is not None:
            W = np.array(est["W"], float)
            if np.all(W == 1):
                obj.register_targets(np.array(B, float))
            else:
                obj.register_targets(np.array(B, float), W=W)
    # registered last: an uncertainty registered after the system does not touch the system's Epsilon
    if len(est["fu"]):
        fu = np.array(est["fu"], float)
        obj.register_uncertainty(pad6(fu) if arraydom else fu)
    return obj


def light_queries(obj, arraydom=False):
    """cheap read-only queries (results discarded): give caches a chance to fill"""
    for k in (1, 2):
        sig = pad6(BG[k]) if arraydom else BG[k].copy()
        obj.capture(sig)
        obj.relative_capture(sig)
    if obj.registered:
        n = obj.A.shape[1]
        for k, x in XA.items():
            if len(x) == n:
                obj.system_capture(x.copy())
                obj.system_relative_capture(x.copy())
        obj.in_system(np.zeros(n))


def heavy(obj, arraydom=False):
    """All heavy read-only queries; returns dict name -> array (or exception name)."""
    out = {}
    if arraydom:
        try:
            out["capture_wide"] = np.asarray(obj.capture(WIDE.copy()), float)
            out["relative_capture_wide"] = np.asarray(obj.relative_capture(WIDE.copy(), domain=DOM.copy()), float)
        except Exception as ex:
            out["capture_wide"] = "EXC:" + type(ex).__name__

    def q(name, fn):
        try:
            r = fn()
            out[name] = [np.asarray(x, float) for x in r] if isinstance(r, tuple) else np.asarray(r, float)
        except Exception as ex:
            out[name] = "EXC:" + type(ex).__name__
    if not obj.registered:
        q("in_hull", lambda: obj.in_hull(PROBES.copy()))
        return out
    bounded = bool(np.all(np.isfinite(obj.ub)))
    q("fit", lambda: obj.fit(PROBES.copy()))
    q("in_hull", lambda: obj.in_hull(PROBES.copy()))
    q("in_hull_abs", lambda: obj.in_hull(PROBES.copy(), relative=False))
    if bounded:
        q("in_hull_norm", lambda: obj.in_hull(PROBES.copy(), normalized=True))
        q("sample", lambda: obj.sample_in_hull(5, seed=3))
        q("gamut", lambda: obj.compute_gamut(seed=1))
        q("gamut_abs", lambda: obj.compute_gamut(seed=1, relative=False))
        q("dist_scaling", lambda: obj.gamut_dist_scaling(PROBES.copy()))
        q("l1_scaling", lambda: obj.gamut_l1_scaling(PROBES.copy()))
        if obj.underdetermined:
            q("range", lambda: obj.range_of_solutions(PROBES.copy(), error="ignore"))
            # secondary-objective fit (C08's subject): only its dependence on the registered state matters here
            q("underdetermined", lambda: obj.fit_underdetermined(PROBES[:2].copy(), underdetermined_opt="l2", l2_eps=1e-4))
            if not isinstance(obj.Epsilon, str):
                # the variance-minimising fit reads the system's Epsilon (interior probes only: unique optimum)
                q("minimize_variance", lambda: obj.minimize_variance(PROBES[:2].copy(), l2_eps=1e-3, solver="CLARABEL"))
    return out


def same(a, b, tol):
    if isinstance(a, str) or isinstance(b, str):
        return isinstance(a, str) and isinstance(b, str) and a == b
    if isinstance(a, list):
        return isinstance(b, list) and len(a) == len(b) and all(same(x, y, tol) for x, y in zip(a, b))
    a, b = np.asarray(a), np.asarray(b)
    if a.shape != b.shape:
        return False
    with np.errstate(invalid="ignore"):
        return bool(np.all((np.abs(a - b) <= tol * (1 + np.abs(b))) | (a == b) | (np.isnan(a) & np.isnan(b))))


def replay_state(st):
    """Replay twice: 'lazy' (queries only where the history has an explicit query step) and 'eager' (all read-only
    queries after every step, so that anything a query caches has a chance to go stale)."""
    out = []
    for mode in ("lazy", "eager", "arraydom"):
        for b in _replay(st, mode):
            clause, where, exp, obs = b
            out.append((clause, dict(mode=mode, **where), exp, obs))
    return out


def _replay(st, mode):
    bad = []
    try:
        return _replay_inner(st, mode, bad)
    except Exception as ex:
        # a light query raised inside the library: a violation, not a machinery failure
        import traceback
        frames = traceback.extract_tb(ex.__traceback__)
        if frames and "/dreye/" in frames[-1].filename:
            hist = st["hist"]
            bad.append(("C14.no-error", dict(q="light", exc=type(ex).__name__, last=hist[-1]["op"] if hist else "init", n=len(hist)),
                        None, repr(ex)[:200]))
            return bad
        raise


def _replay_inner(st, mode, bad):
    dreye = import_dreye()
    hist, est, ans = st["hist"], st["est"], st["ans"]
    last = hist[-1]["op"] if hist else "init"
    where0 = dict(last=last, n=len(hist), kshape=est["kshape"], blshape=est["blshape"], reg=est["reg"])
    ad = mode == "arraydom"
    shadow = {"B": None, "arraydom": ad}
    obj = new_estimator(dreye, ad)
    pre_est_B = None
    try:
        for i, a in enumerate(hist):
            if a["op"] == "fit" and i == len(hist) - 1:
                pre_est_B = None if shadow["B"] is None else np.array(obj.B, float).copy()
            apply(dreye, obj, a, shadow)
            if a["op"] == "fit":
                shadow["B"] = np.array(obj.B, float).copy()
            if mode != "lazy" and i < len(hist) - 1:
                heavy(obj, ad)
                light_queries(obj, ad)
    except Exception as ex:
        bad.append(("C14.no-error", dict(exc=type(ex).__name__, **where0), None, repr(ex)[:200]))
        return bad
    # ---- light answers against the spec --------------------------------------
    def chk(clause, name, got, want, tol=1e-12):
        if not same(np.asarray(got, float), np.asarray(want, float), tol):
            bad.append((clause, dict(q=name, **where0), np.asarray(want, float).tolist(), np.asarray(got, float).tolist()))
    K = fmat(ans["K"])
    ks = ans["kshape"]
    wantK = np.array([K[0, 0]]) if ks == "1" else (np.diag(K) if ks == "d" else K)
    chk("C14.ref-model", "K", np.asarray(obj.K, float), wantK)
    bl = fvec(ans["baseline"])
    wantbl = bl[:1] if est["blshape"] == "1" else bl
    chk("C14.ref-model", "baseline", np.asarray(obj.baseline, float), wantbl)
    for k in (1, 2):
        sig = pad6(BG[k]) if ad else BG[k].copy()
        keep = sig.copy()
        chk("C14.ref-model", "capture", obj.capture(sig), ans["capture"][k - 1], 0)
        chk("C14.ref-model", "relative_capture", obj.relative_capture(sig), fvec(ans["relative_capture"][k - 1]))
        if not np.array_equal(sig, keep):
            bad.append(("C14.caller-array-untouched", dict(q="capture", **where0), keep.tolist(), sig.tolist()))
    # filter uncertainty and the variance it induces
    if bool(obj.filters_uncertainty is not None) != ans["has_uncertainty"]:
        bad.append(("C14.ref-model", dict(q="has_uncertainty", **where0), ans["has_uncertainty"], obj.filters_uncertainty is not None))
    if ans["has_uncertainty"]:
        for k in (1, 2):
            sig = pad6(BG[k]) if ad else BG[k].copy()
            chk("C14.ref-model", "uncertainty_capture", obj.uncertainty_capture(sig), ans["uncertainty_capture"][k - 1], 0)
    if ans["registered"]:
        if len(ans["Epsilon"]):
            if isinstance(obj.Epsilon, str):
                bad.append(("C14.ref-model", dict(q="Epsilon", **where0), ans["Epsilon"], obj.Epsilon))
            else:
                chk("C14.ref-model", "Epsilon", obj.Epsilon, ans["Epsilon"], 0)
        elif not isinstance(obj.Epsilon, str) or obj.Epsilon != "heteroscedastic":
            bad.append(("C14.ref-model", dict(q="Epsilon", **where0), "heteroscedastic", np.asarray(obj.Epsilon).tolist()))
    chk("C14.ref-model", "W", np.broadcast_to(np.asarray(obj.W, float), (2,)), ans["W"], 0)
    if bool(obj.registered) != ans["registered"] or bool(obj.registered_targets) != ans["registered_targets"]:
        bad.append(("C14.ref-model", dict(q="flags", **where0), [ans["registered"], ans["registered_targets"]], [bool(obj.registered), bool(obj.registered_targets)]))
    if ans["registered"] and ans["crossed"]:
        # crossed bounds (a transient of partial register_bounds calls): only the stored values are compared
        chk("C14.ref-model", "lb", obj.lb, fvec(ans["lb"]))
        chk("C14.ref-model", "ub", obj.ub, fvec(ans["ub"]))
        return bad
    if ans["registered"]:
        sa = ans["sys"]
        chk("C14.ref-model", "A", obj.A, sa["A"], 0)
        chk("C14.ref-model", "lb", obj.lb, fvec(ans["lb"]))
        chk("C14.ref-model", "ub", obj.ub, fvec(ans["ub"]))
        if bool(obj.underdetermined) != sa["underdetermined"]:
            bad.append(("C14.ref-model", dict(q="underdetermined", **where0), sa["underdetermined"], bool(obj.underdetermined)))
        for k, v in fitems(sa["system_capture"]):
            chk("C14.ref-model", "system_capture", obj.system_capture(XA[int(k)].copy()), v, 0)
        for k, v in fitems(sa["system_relative_capture"]):
            chk("C14.ref-model", "system_relative_capture", obj.system_relative_capture(XA[int(k)].copy()), fvec(v))
        Bp = np.array([fvec(t["b"]) for t in sa["in_hull"]])
        try:
            ih = np.asarray(obj.in_hull(Bp.copy())).astype(bool)
            for t, a in zip(sa["in_hull"], ih):
                if (t["cls"] == "interior" and not a) or (t["cls"] == "exterior" and a):
                    bad.append(("C14.ref-model", dict(q="in_hull", cls=t["cls"], **where0), t["cls"], bool(a)))
        except Exception as ex:
            bad.append(("C14.no-error", dict(q="in_hull", exc=type(ex).__name__, **where0), None, repr(ex)[:200]))
        if ans["registered_targets"]:
            if ans["nfit"] == 0:
                chk("C14.ref-model", "B", obj.B, fmat(ans["tB"]))
            chk("C14.ref-model", "target_B", shadow.get("target_B"), fmat(ans["tB"]))
    # ---- error behaviour: which exception each call raises in this registered state (state-changing calls on a copy)
    import copy

    def exc_of(fn):
        try:
            fn()
            return "ok"
        except Exception as ex:
            return type(ex).__name__
    n_src = len(est["A"][0]) if est["reg"] else 2
    probe_x = np.zeros(n_src)
    calls = {
        "system_capture": lambda: obj.system_capture(probe_x.copy()),
        "in_system": lambda: obj.in_system(probe_x.copy()),
        "register_bounds": lambda: copy.deepcopy(obj).register_bounds(lb=np.zeros(n_src)),
        "register_targets": lambda: copy.deepcopy(obj).register_targets(PROBES[:1].copy()),
        "fit_registered": lambda: copy.deepcopy(obj).fit(),
        "fit_unknown_model": lambda: obj.fit(PROBES[:1].copy(), model="no-such-model"),
        "fit_n_jobs": lambda: obj.fit(PROBES[:1].copy(), n_jobs=2),
        "range_not_underdetermined": lambda: obj.range_of_solutions(PROBES[:1].copy(), error="ignore"),
        "fit_underdetermined_not_under": lambda: obj.fit_underdetermined(PROBES[:1].copy()),
        "gamut_metric": lambda: obj.compute_gamut(seed=1),
        "sample_unknown_engine": lambda: obj.sample_in_hull(3, seed=1, engine="no-such-engine"),
        "uncertainty_capture": lambda: obj.uncertainty_capture(pad6(BG[1]) if ad else BG[1].copy()),
    }
    for name, want in ans["errors"].items():
        if want == "n/a":
            continue
        got = exc_of(calls[name])
        if got != want:
            bad.append(("C14.error-behaviour", dict(q=name, **where0), want, got))
    # ---- fit post-condition (the last action was an internal fit) ------------------
    if last == "fit" and pre_est_B is not None:
        ref = fresh_from(dreye, est, B=pre_est_B, arraydom=ad)
        internal_fit(ref, hist[-1]["k"])
        if not same(obj.B, ref.B, 1e-6) or not same(obj.X, ref.X, 1e-6):
            bad.append(("C14.ref-model", dict(q="fit()", **where0), np.asarray(ref.B).tolist(), np.asarray(obj.B).tolist()))
    # ---- answers that were handed out stay what they were: a later fit of the same shape must not rewrite the stored
    # result of the internal fit, nor an array returned by an earlier explicit fit
    if est["reg"] and not ans["crossed"]:
        try:
            keepX = None if not hasattr(obj, "X") else np.array(obj.X, float).copy()
            shape_rows = 2 if keepX is None else len(np.atleast_2d(keepX))
            r1 = obj.fit(PROBES[:shape_rows].copy())
            r1X = np.array(r1[0], float).copy()
            r2 = obj.fit(PROBES[-shape_rows:].copy())
            if not np.array_equal(np.asarray(r1[0], float), r1X):
                bad.append(("C14.query-pure", dict(q="array returned by an earlier fit rewritten", **where0), r1X.tolist(), np.asarray(r1[0], float).tolist()))
            if keepX is not None and not np.array_equal(np.asarray(obj.X, float), keepX):
                bad.append(("C14.query-pure", dict(q="stored X rewritten by an explicit fit", **where0), keepX.tolist(), np.asarray(obj.X, float).tolist()))
        except Exception as ex:
            bad.append(("C14.no-error", dict(q="fit twice", exc=type(ex).__name__, **where0), None, repr(ex)[:200]))
    # ---- heavy answers: object under test vs fresh object from the registered state; purity ---------
    h1 = heavy(obj, ad)
    h2 = heavy(obj, ad)
    for name, v in h1.items():
        precondition = (name == "in_hull" and not est["reg"]) or name == "dist_scaling"
        if name == "underdetermined" and v == "EXC:RuntimeError":
            continue      # a probe outside the gamut: the constraint cannot be met (the fresh object must fail alike)
        # documented preconditions: queries before a system is registered; chromatic scaling needs non-negative
        # captures and a neutral point inside the chromatic gamut (AssertionError otherwise)
        if isinstance(v, str) and not (precondition and v == "EXC:AssertionError"):
            bad.append(("C14.no-error", dict(q=name, exc=v[4:], **where0), None, v))
    for name in h1:
        if not same(h1[name], h2[name], 0):
            bad.append(("C14.query-pure", dict(q=name, **where0), None, None))
    ref = fresh_from(dreye, est, B=shadow["B"] if est["treg"] else None, arraydom=ad)
    hr = heavy(ref, ad)
    if "sample" in h1 and not isinstance(h1["sample"], str) and est["reg"]:
        try:
            ok = np.asarray(ref.in_hull(np.asarray(h1["sample"], float))).astype(bool)
            if not ok.all():
                bad.append(("C14.ref-model", dict(q="sample-in-current-gamut", **where0), True, ok.tolist()))
        except Exception:
            pass
    for name in hr:
        if name == "sample":
            # seeded sampling is not a continuous function of the registered values (qhull's simplex order may flip
            # under a 1-ulp difference of K): it is checked for purity / determinism above, not across objects
            continue
        if name not in h1 or not same(h1[name], hr[name], 1e-6):
            g = h1.get(name)
            bad.append(("C14.ref-model", dict(q=name, heavy=True, **where0),
                        hr[name] if isinstance(hr[name], str) else [np.asarray(x).tolist() for x in hr[name]] if isinstance(hr[name], list) else np.asarray(hr[name]).tolist(),
                        g if isinstance(g, str) else None if g is None else [np.asarray(x).tolist() for x in g] if isinstance(g, list) else np.asarray(g).tolist()))
    # light answers again after the heavy queries (queries must not change later answers)
    K2 = np.asarray(obj.K, float)
    if not same(K2, wantK, 1e-12) or (ans["registered"] and (not same(obj.lb, fvec(ans["lb"]), 1e-12) or not same(obj.ub, fvec(ans["ub"]), 1e-12))):
        bad.append(("C14.query-pure", dict(q="state-after-queries", **where0), None, None))
    if ans["registered_targets"] and shadow["B"] is not None and not same(obj.B, shadow["B"], 0):
        bad.append(("C14.query-pure", dict(q="B-after-queries", **where0), np.asarray(shadow["B"]).tolist(), np.asarray(obj.B).tolist()))
    return bad


def _chunk(sts):
    return [replay_state(st) for st in sts]


def load(cfg):
    res = tlc.run("mc/MC_C14", cfg="mc/MC_C14_%s.cfg" % cfg, dump=True, timeout=3400)
    sts = []
    from ..tlaval import parse_dump
    # parse all three variables
    import os
    text = open(res.dump).read()
    blocks = text.split("\nState ")
    n = max(1, len(blocks) // 64)
    chunks = ["State " + "\nState ".join(blocks[i:i + n]) for i in range(0, len(blocks), n)]
    parts = pmap(_parse_full, chunks, chunksize=1)
    tlc.cleanup(res)
    return res, [s for p in parts for s in p]


def _parse_full(text):
    import tempfile, os
    from ..tlaval import parse_dump
    fd, path = tempfile.mkstemp(dir=tlc.OUT)
    with os.fdopen(fd, "w") as f:
        f.write(text)
    try:
        return [s for s in parse_dump(path) if "hist" in s]
    finally:
        os.remove(path)


def run(ctx):
    thorough = ctx.tier == "thorough"
    rng = random.Random(ctx.seed)
    cfgs = ["tree3", "rereg4", "graph5"] if thorough else ["tree2", "rereg3", "graph5"]
    seen = set()
    sts = []
    for cfg in cfgs:
        res, ss = load(cfg)
        ctx.add_tlc(res)
        # the model checker explores every history of the configuration; the replay into the real object (three
        # representations, all queries) takes a (seeded) sample of them where there are too many
        cap = (4000 if thorough else 500) if cfg == "graph5" else (4000 if thorough else None)
        ctx.count("histories explored by TLC:" + cfg, len(ss))
        if cap is not None and len(ss) > cap:
            ss.sort(key=lambda s: repr(s["hist"]))
            rng.shuffle(ss)
            ss = ss[:cap]
        for s in ss:
            key = repr(s["hist"])
            if key not in seen:
                seen.add(key)
                sts.append(s)
        ctx.count("histories:" + cfg, len(ss))
    # long random histories (beyond the exhaustive depth): TLC simulation mode, one behaviour per walk
    sres, finals = tlc.simulate_final_states("mc/MC_C14", "mc/MC_C14_sim12.cfg", 400 if thorough else 80, 13, ctx.seed + 1, "C14")
    nsim = 0
    for s in finals:
        if "hist" in s and repr(s["hist"]) not in seen:
            seen.add(repr(s["hist"]))
            sts.append(s)
            nsim += 1
    ctx.count("histories:simulated-depth<=12", nsim)
    ctx.states += sres.generated
    if not sts:
        raise MachineryFailure("no histories")
    parts = pmap(_chunk, [sts[i:i + 20] for i in range(0, len(sts), 20)], chunksize=1)
    flat = [b for p in parts for b in p]
    for st, bad in zip(sts, flat):
        for clause, where, exp, obs in bad:
            ctx.violation(clause, where, dict(hist=st["hist"], est=st["est"]), exp, obs)
        ctx.evaluations += 1
        ctx.count("len:%d" % len(st["hist"]))
        for a in st["hist"]:
            ctx.count("op:" + a["op"])
        if sum(1 for a in st["hist"] if a["op"] != "query") >= 2:
            ctx.nontrivial.add(repr(st["hist"]))
    ctx.traces += len(sts)
    for st in sts[:: max(1, len(sts) // 3)][:3]:
        ctx.sample(dict(hist=st["hist"], est=st["est"]))
    ctx.assumptions += ["heavy answers (fit, range, sampling, gamut metric) are compared with a fresh object built from the spec's registered state (tolerance 1e-6); their numeric correctness is the subject of C04/C06/C13/C18",
                        "value pools of 2-3 lattice values per slot, 2 receptors; plotting methods excluded"]
    return ctx.finish(rule=RULE, exhaustive=True)


def replay(ctx, rep):
    """No case-level replay for this property (the failing case depends on recorded / random executions or on the
    spec's answers): re-run the whole quick check against the current tree; exit 0 iff nothing is violated any more."""
    print("replaying by re-running the check; recorded case:", str(rep.get("case"))[:300])
    return run(ctx)
