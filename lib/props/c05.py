"""C05 — samples are fitted independently; batch size never changes or breaks a result."""
import itertools

import numpy as np

from .. import tlc
from ..common import MachineryFailure, import_dreye, pmap

RULE = ("Parallel.tla (batch schedule state machine) model-checked for all N<=6, all batch sizes incl. 'full' and >N "
        "(code schedule and every generic partition schedule); the real fitting procedures are called for every "
        "(N, batch size) x model x option set x system with hooks on, and the recorded Call/Solve/Return/Raise/Row "
        "events are validated by Trace_C05 under TLC: Solve events must partition the rows, no call may fail, and the "
        "per-row result fingerprint (inferred function F) must be identical for every batch size and every "
        "permuted/duplicated/dropped/appended neighbourhood.  non-trivial = call with batch size > 1; distinct = call")

SCALE = 10000
TOL = 400  # 2 x SOLV-D (each run within 2e-2 capture units of the optimum)

SYSTEMS = {
    "u23": dict(A=[[3., 1, 0], [0, 1, 2]], lb=[0., 0, 0], ub=[1., 1, 1]),
    "s22": dict(A=[[2., 1], [1, 3]], lb=[0., 0], ub=[1., 1]),
    # positive lower bounds (a dark target is then NOT fitted by zero intensities)
    "u23lb": dict(A=[[3., 1, 0], [0, 1, 2]], lb=[0.05, 0.05, 0.05], ub=[1., 1, 1]),
}
POOL = np.array([[1.0, 1.0], [2.0, 1.5], [5.0, 5.0], [0.5, 2.5], [3.5, 0.25], [0.25, 0.125], [1.5, 3.5], [2.5, 2.0]])
# "dark" option: rows 0 and 2 carry no light at all (target = baseline), also as the first row of every call
DARK = {0, 2}
# "wide" option (variance minimisation, high-accuracy solver): in-gamut targets spanning three decades in one call
WIDE_X = np.array([[0.1, 0.2, 0.1], [1.0, 0.5, 2.0], [40.0, 10.0, 25.0], [300.0, 200.0, 100.0], [0.3, 0.1, 0.2], [900.0, 50.0, 400.0], [4.0, 4.0, 1.0], [0.2, 0.3, 0.3]])
# the last row (only ever used as the appended sample) carries by far the largest weights of the pool
WPOOL = np.array([[1.0, 1.0], [2.0, 1.0], [1.0, 2.0], [1.0, 1.0], [2.0, 2.0], [1.0, 1.0], [1.0, 2.0], [8.0, 4.0]])
OPTIONS = {"plain": dict(baseline=None, W=False), "bl": dict(baseline=[0.5, 0.25], W=False),
           "w": dict(baseline=None, W=True), "blw": dict(baseline=[0.5, 0.25], W=True),
           # variance minimisation only: positive lower bounds and a requested total intensity per row
           "l1lb": dict(baseline=None, W=False, lb=0.05, L1=True),
           "dark": dict(baseline=[0.5, 0.25], W=False, dark=True),
           "verbose": dict(baseline=[0.5, 0.25], W=True, verbose=True),
           "wide": dict(baseline=None, W=False, wide=True)}
MODELS = ["gaussian", "poisson", "excitation", "minimize"]


def _layout(a, layout):
    """The same values in another memory layout (the abstract rows are what the spec talks about)."""
    if a is None or layout == "C":
        return a
    if layout == "fortran":
        return np.asfortranarray(a)
    if layout == "strided":      # every second row / column of a larger buffer, read-only
        buf = np.full((2 * a.shape[0], 2 * a.shape[1]), 77.0)
        buf[::2, ::2] = a
        v = buf[::2, ::2]
        v.setflags(write=False)
        return v
    raise ValueError(layout)


def _call(model, sysd, opt, rows, bsreq, layout="C"):
    """Run one fitting call.  Returns (X, Bpred) ."""
    from dreye.api.optimize.lsq_linear import lsq_linear, lsq_linear_excitation, lsq_linear_minimize
    A = np.array(sysd["A"])
    lb, ub = np.array(sysd["lb"]), np.array(sysd["ub"])
    if opt.get("lb"):
        lb = lb + opt["lb"]
    B = POOL[rows]
    if opt.get("dark"):
        B = np.array([np.zeros(2) if r in DARK else POOL[r] for r in rows])
    if opt.get("wide"):
        ub = np.full_like(ub, 1000.0)
        B = WIDE_X[rows] @ A.T
    bl = None if opt["baseline"] is None else np.array(opt["baseline"])
    if bl is not None:
        B = B + bl
    W = WPOOL[rows] if opt["W"] else None
    B, W = _layout(B, layout), _layout(W, layout)
    kw = dict(lb=lb, ub=ub, W=W, baseline=bl, batch_size=bsreq, return_pred=True)
    if opt.get("verbose"):
        kw["verbose"] = 1          # documented keyword: a progress bar must not change what is iterated
    if model in ("gaussian", "poisson"):
        X, Bp = lsq_linear(A, B, model=model, **kw)
    elif model == "excitation":
        X, Bp = lsq_linear_excitation(A, B, **kw)
    else:
        if opt.get("L1"):
            # the requested totals are those of the ordinary fit of each row (so that they are attainable)
            X0 = lsq_linear(A, POOL, lb=lb, ub=ub, batch_size=1)
            from dreye.api import _verif
            del _verif.EVENTS[:]      # the events of this auxiliary fit are not part of the recorded call
            kw.update(L1=X0.sum(1)[rows], l1_eps=1e-2)
        if opt.get("wide"):
            kw["solver"] = "CLARABEL"
        X, Bp, _ = lsq_linear_minimize(A, B, l2_eps=1e-4, **kw)
    return X, Bp


def run_job(job):
    """One (system, option, model): all (N, bs) calls + neighbourhood variants.  Returns list of event dicts
    (without global indices) using local rid keys (tuples)."""
    import_dreye()
    from dreye.api import _verif
    sysname, optname, model, nmax, part, nparts = job
    sysd, opt = SYSTEMS[sysname], OPTIONS[optname]
    events = []
    calls = []
    for N in range(1, nmax + 1):
        for bsreq in list(range(1, N + 3)) + ["full"]:
            calls.append((list(range(N)), bsreq, "grid"))
    # neighbourhood variants at batch sizes 1, 2, 3
    base = list(range(min(4, nmax)))
    for bsreq in (1, 2, 3):
        calls.append((base[::-1], bsreq, "permuted"))
        calls.append(([base[0]] + base, bsreq, "duplicated"))
        calls.append((base[:1] + base[2:], bsreq, "dropped"))
        calls.append((base + [len(POOL) - 1], bsreq, "appended"))
    for bsreq in (1, 2, 3, "full"):
        calls.append((base, bsreq, "fortran"))
        calls.append((base, bsreq, "strided"))
    for rows, bsreq, kind in calls[part::nparts]:
        N = len(rows)
        del _verif.EVENTS[:]
        meta = dict(sys=sysname, opt=optname, model=model, N=N, bsreq=bsreq, kind=kind,
                    bs_gt_n=(bsreq != "full" and bsreq > N), bs_gt_1=(bsreq == "full" and N > 1) or (bsreq != "full" and bsreq > 1),
                    divides=(bsreq == "full" or N % bsreq == 0))
        try:
            import contextlib, io
            with contextlib.redirect_stderr(io.StringIO()):      # (progress bars of the verbose option)
                X, Bp = _call(model, sysd, opt, rows, bsreq, layout=kind if kind in ("fortran", "strided") else "C")
            exc = ""
        except Exception as ex:
            exc = type(ex).__name__
            meta["msg"] = repr(ex)[:160]
        solves = [e for e in _verif.EVENTS if e["ev"] in ("Solve", "Pass")]
        events.append(dict(ev="Call", N=N, req=(0 if bsreq == "full" else bsreq), hooked=any(e["ev"] == "Solve" for e in solves) and any(e["ev"] == "Pass" for e in solves), meta=meta))
        for e in solves:
            if e["ev"] == "Pass":
                events.append(dict(ev="Pass", fn=e["fn"], meta=meta))
            else:
                events.append(dict(ev="Solve", idx=e["idx"], first_row=e["first_row"], n_written=e["n_written"], n_solved=e["n_solved"], meta=meta,
                                   status=e.get("status", "")))
        if exc:
            events.append(dict(ev="Raise", exc=exc, meta=meta))
            continue
        events.append(dict(ev="Return", meta=meta))
        X, Bp = np.asarray(X, float), np.asarray(Bp, float)
        if X.shape[0] != N or Bp.shape[0] != N or not (np.all(np.isfinite(X)) and np.all(np.isfinite(Bp))):
            events.append(dict(ev="Raise", exc="BadShapeOrNaN", meta=meta))
            continue
        for k, r in enumerate(rows):
            clause = "C05.batch-invariance" if kind in ("grid", "fortran", "strided") else "C05.row-independence"
            fscale = SCALE * (10 if optname == "wide" else 1)     # high-accuracy class for the wide option: 4e-3
            events.append(dict(ev="Row", rid=("B", sysname, optname, model, r), fp=[int(round(v * fscale)) for v in Bp[k]], clause=clause, meta=meta))
            if sysname == "s22":  # unique optimum: intensities must agree too
                events.append(dict(ev="Row", rid=("X", sysname, optname, model, r), fp=[int(round(v * SCALE)) for v in X[k]], clause=clause + "-x", meta=meta))
    return events


def padded_minimize_probe(seed):
    """Variance minimisation on 4-receptor / 3-source systems with a baseline and one strongly out-of-gamut row, over all
    batch sizes (the padded batches in particular): no call may fail and every row must agree with its batch-size-one
    result (no oracle needed)."""
    import_dreye()
    from dreye.api.optimize.lsq_linear import lsq_linear_minimize
    bad, n = [], 0
    for sd in [3, 11, 12]:          # fixed systems (the finding recorded for system 3 is identified by it)
        rng = np.random.default_rng(sd)
        A = np.abs(rng.normal(size=(4, 3))) + 0.1
        lb, ub, base = np.zeros(3), np.array([1.0, 2.0, 0.5]), np.array([0.05, 0.8, 0.2, 1.5])
        rng2 = np.random.default_rng(1 if sd == 3 else sd + 1)
        for nrows in (2, 3):
            B = rng2.uniform(lb, ub, size=(nrows, 3)) @ A.T + base
            B[-1] *= 3
            ref = None
            for bs in list(range(1, nrows + 4)) + ["full"]:
                n += 1
                w = dict(model="minimize", probe="padded out-of-gamut", system=sd, N=nrows, bs=bs)
                try:
                    X, Bp, _ = lsq_linear_minimize(A, B.copy(), lb=lb, ub=ub, baseline=base, batch_size=bs, l2_eps=1e-4, return_pred=True)
                except Exception as ex:
                    bad.append(("C05.no-failure", dict(exc=type(ex).__name__, **w), None, repr(ex)[:160], dict(seed=sd)))
                    continue
                if ref is None:
                    ref = np.asarray(Bp, float)
                elif np.max(np.abs(np.asarray(Bp, float) - ref)) > TOL / SCALE:
                    bad.append(("C05.batch-invariance", w, ref.tolist(), np.asarray(Bp, float).tolist(), dict(seed=sd)))
    return bad, n


def run(ctx):
    thorough = ctx.tier == "thorough"
    # (1) the design: schedule state machine
    for cfg in ("code", "generic"):
        r = tlc.run("mc/MC_C05", cfg="mc/MC_C05_%s.cfg" % cfg, coverage=True)
        ctx.add_tlc(r)
        for act in (("FullBatch", "LastBatch", "Finish") if cfg == "code" else ("GenericSolve", "GenericFinish")):
            if r.coverage.get(act, (0, 0))[0] == 0:
                raise MachineryFailure("Parallel.tla action %s never taken" % act)
    # design-level explanation of the deviations: with them the properties fail
    dev = {}
    for cfg in ("asread_fail", "asread_coupled"):
        r = tlc.run("mc/MC_C05", cfg="mc/MC_C05_%s.cfg" % cfg, allow_violation=True)
        dev[cfg] = r.violated
    if dev != {"asread_fail": "NoFailure", "asread_coupled": "BatchInvariant"}:
        raise MachineryFailure("deviation configs did not violate as expected: %r" % dev)
    ctx.extra["deviation_models_violate"] = dev
    # unbounded N, bs: inductive invariant of the schedule (Apalache)
    obligations = [("Init", "IndInv", 0), ("IndInit", "IndInv", 1), ("IndInit", "Safe", 0)]
    done = 0
    for init, inv, length in obligations:
        ok, cmd = tlc.apalache("ParallelInd", init, inv, length)
        if not ok:
            raise MachineryFailure("Apalache: obligation %s => %s (length %d) not discharged" % (init, inv, length))
        done += 1
    ctx.extra["apalache_inductive_obligations"] = dict(obligations=len(obligations), discharged=done,
                                                      statement="for all N>=1, bs>=1: rows [0, min(idx*bs, N)) written exactly once, none twice, none beyond N; done => all N rows")
    # (2) the code: every (N, bs) x model x options, hooks on
    nmax = 5 if thorough else 4
    opts = ["plain", "bl", "w", "blw"] if thorough else ["plain", "blw"]      # (the special options are added below)
    jobs = []
    for s in ("u23", "s22"):
        for o in opts:
            for m in MODELS:
                k = 6 if m == "excitation" else 2
                jobs += [(s, o, m, (nmax if m != "excitation" or thorough else 3), part, k) for part in range(k)]
    for s in ("u23", "s22"):
        jobs += [(s, "l1lb", "minimize", nmax, part, 2) for part in range(2)]
    for m in MODELS:
        k = 6 if m == "excitation" else 2
        jobs += [("u23lb", "dark", m, (nmax if m != "excitation" or thorough else 3), part, k) for part in range(k)]
    jobs += [("u23", "wide", "minimize", nmax, part, 2) for part in range(2)]
    for m in ("gaussian", "poisson", "minimize"):
        jobs += [("u23", "verbose", m, nmax, part, 2) for part in range(2)]
    pbad, pn = padded_minimize_probe(ctx.seed)
    for clause, where, exp, obs, case in pbad:
        ctx.violation(clause, where, dict(probe=case), exp, obs)
    ctx.count("padded out-of-gamut variance-minimisation probe calls", pn)
    parts = pmap(run_job, jobs, chunksize=1)
    events = [e for p in parts for e in p]
    rids = {}
    for e in events:
        if e["ev"] == "Row":
            e["rid"] = rids.setdefault(e["rid"], len(rids) + 1)
    trace = [dict(ev="Header", i=0, nrid=max(1, len(rids)), tol=TOL)]
    for i, e in enumerate(events):
        t = {k: v for k, v in e.items() if k != "meta"}
        t["i"] = i + 2
        trace.append(t)
    res, bad, path = tlc.validate_trace("Trace_C05", trace, "C05")
    ctx.add_tlc(res)
    ncalls = sum(1 for e in events if e["ev"] == "Call")
    ctx.traces += ncalls
    ctx.evaluations += ncalls
    for _, idx, clause in bad:
        e = events[idx - 2]
        m = e["meta"]
        where = dict(model=m["model"], bs_gt_n=m["bs_gt_n"], bs_gt_1=m["bs_gt_1"], divides=m["divides"], baseline=OPTIONS[m["opt"]]["baseline"] is not None,
                     exc=e.get("exc", ""))
        ctx.violation(clause, where, dict(event={k: v for k, v in e.items() if k != "meta"}, call=m), None, e.get("fp") or m.get("msg"))
    padded_taken = sum(1 for e in events if e["ev"] == "Solve" and e["n_solved"] > e["n_written"])
    hooked = sum(1 for e in events if e["ev"] == "Call" and e["hooked"])
    ctx.extra.update(calls=ncalls, calls_with_hook_events=hooked, padded_batches_observed=padded_taken,
                     solve_events=sum(1 for e in events if e["ev"] == "Solve"), row_events=sum(1 for e in events if e["ev"] == "Row"),
                     distinct_row_ids=len(rids), statuses=sorted({e.get("status", "") for e in events if e["ev"] == "Solve"}))
    for e in events:
        if e["ev"] == "Call":
            m = e["meta"]
            ctx.count("calls:%s:%s" % (m["model"], "bs>N" if m["bs_gt_n"] else "full" if m["bsreq"] == "full" else "bs=1" if m["bsreq"] == 1 else "divides" if m["divides"] else "padded"))
            if m["bs_gt_1"]:
                ctx.nontrivial.add((m["sys"], m["opt"], m["model"], m["N"], m["bsreq"], m["kind"]))
    for t in trace[1:8]:
        ctx.sample(t)
    ctx.assumptions += ["per-row agreement tolerance 4e-2 capture units (each run within the default-solver class 2e-2 of the optimum)",
                        "hook events absent (refactoring) => partition sub-check skipped, never a violation"]
    return ctx.finish(rule=RULE, exhaustive=True)


def replay(ctx, rep):
    m = rep["case"]["call"]
    import_dreye()
    rows = list(range(m["N"]))
    if m.get("kind") not in ("grid", "fortran", "strided"):
        print("neighbourhood variant: re-running the check")
        return run(ctx)
    try:
        X, Bp = _call(m["model"], SYSTEMS[m["sys"]], OPTIONS[m["opt"]], rows, m["bsreq"], layout=m["kind"] if m["kind"] != "grid" else "C")
        X1, Bp1 = _call(m["model"], SYSTEMS[m["sys"]], OPTIONS[m["opt"]], rows, 1)
        d = float(np.max(np.abs(Bp - Bp1)))
        print("max |Bpred(bs) - Bpred(1)| =", d)
        return 1 if d > TOL / SCALE else 0
    except Exception as ex:
        print("still failing:", repr(ex))
        return 1
