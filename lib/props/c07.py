"""C07 — Poisson and excitation models minimise their objective; all agree in gamut."""
import itertools

import numpy as np

from .. import tlc, dsys
from ..common import MachineryFailure, import_dreye, pmap, grouped

RULE = ("one TLC state per lattice system (non-negative A, K none/scalar/vector, baseline none/scalar/vector) with "
        "positive grid targets; per target the exact gamut class, the Poisson optimum where a box corner carries an "
        "exact (log-free) KKT certificate, and the exact excitation objective of the best of 3^n probe points; "
        "replayed into fit(model='poisson'|'excitation'|'gaussian'): bounds, in-gamut reproduction by all three "
        "models, certified Poisson optimum, and 'not worse than the best probe point' (necessary condition) for both "
        "objectives.  non-trivial = out-of-gamut target or certified corner; distinct = (system, target, model)")

TOL = 2e-2


def exc_obj(b, q):
    return np.max(np.abs(b / (1 + b) - q / (1 + q)))


def poisson_nll(b, q):
    q = np.maximum(q, 1e-300)
    return np.sum(q - b * np.log(q))


def replay_state(args):
    st, nexc = args
    dreye = import_dreye()
    s = st["sys"]
    A, lb, ub, K, bl = dsys.floats(s)
    D, DK = s["D"], s["DK"]
    S = D * DK
    Kmat = np.asarray(s["Kn"], float) / DK
    blv = np.asarray(s["bl"], float) / D
    where0 = dict(fam=st["fam"], **dsys.sys_where(s))
    bad = []
    recs = sorted(st["recs"], key=lambda r: r["b"])
    if not recs:
        return bad, 0
    B = np.array([dsys.b_float(s, r["b"]) for r in recs])
    est = dsys.make_estimator(dreye, s)
    rng = ub - lb
    probes = np.array(list(itertools.product(*[(l, (l + u) / 2, u) for l, u in zip(lb, ub)])))
    qprobes = (probes @ A.T + blv) @ Kmat.T
    nfit = 0

    def common(model, X, Bp, rows):
        for j, k in enumerate(rows):
            r = recs[k]
            w = dict(model=model, cls=r["cls"], **where0)
            x = X[j]
            if np.any(x < lb - 1e-2 * rng) or np.any(x > ub + 1e-2 * rng):
                bad.append(("C07.bounds", w, [lb.tolist(), ub.tolist()], x.tolist(), r))
            pred = Kmat @ (A @ x + blv)
            if np.max(np.abs(Bp[j] - pred)) > 1e-9 * (1 + np.max(np.abs(pred))):
                bad.append(("C07.pred-identity", w, pred.tolist(), Bp[j].tolist(), r))
            if r["cls"] == "interior" and np.max(np.abs(pred - B[k])) > TOL:
                bad.append(("C07.in-gamut-reproduced", w, B[k].tolist(), pred.tolist(), r))

    # gaussian and poisson on all targets
    for model in ("gaussian", "poisson"):
        try:
            X, Bp = est.fit(B.copy(), model=model)
            X, Bp = np.asarray(X, float), np.asarray(Bp, float)
            nfit += len(recs)
        except Exception as ex:
            bad.append(("C07.no-error", dict(model=model, exc=type(ex).__name__, **where0), None, repr(ex)[:200], None))
            continue
        common(model, X, Bp, range(len(recs)))
        if model == "poisson":
            for k, r in enumerate(recs):
                w = dict(model=model, cls=r["cls"], certified=bool(r["pcorner"]), **where0)
                pred = Kmat @ (A @ X[k] + blv)
                if r["pcorner"] and r["cls"] != "interior":
                    qc = np.asarray(r["pcorner_q"], float) / S
                    if np.max(np.abs(pred - qc)) > TOL:
                        bad.append(("C07.poisson-optimum", w, qc.tolist(), pred.tolist(), r))
                # necessary condition: not worse than any probe point of the box
                valid = np.all(qprobes > 0, axis=1)
                if valid.any():
                    best = min(poisson_nll(B[k], q) for q in qprobes[valid])
                    mine = poisson_nll(B[k], pred)
                    if mine > best + TOL * (1 + abs(best)) * 0.5:
                        bad.append(("C07.poisson-optimum", dict(kind="worse-than-probe", **w), float(best), float(mine), r))
    # excitation: expensive (bisection): a deterministic subset of the targets
    rows = list(range(len(recs)))
    rows = rows[:: max(1, len(rows) // max(1, nexc))][:nexc]
    if rows:
        try:
            X, Bp = est.fit(B[rows].copy(), model="excitation")
            X, Bp = np.asarray(X, float), np.asarray(Bp, float)
            nfit += len(rows)
            common("excitation", X, Bp, rows)
            for j, k in enumerate(rows):
                r = recs[k]
                pred = Kmat @ (A @ X[j] + blv)
                tbest = r["exc_probe_t"][0] / r["exc_probe_t"][1] * S   # stored as rational of (value / S)
                mine = exc_obj(B[k], pred)
                if mine > tbest + TOL:
                    bad.append(("C07.excitation-optimum", dict(model="excitation", cls=r["cls"], kind="worse-than-probe", **where0), float(tbest), float(mine), r))
        except Exception as ex:
            bad.append(("C07.no-error", dict(model="excitation", exc=type(ex).__name__, **where0), None, repr(ex)[:200], None))
    return bad, nfit


def _group(jobs):
    return [replay_state(j) for j in jobs]


def run(ctx):
    thorough = ctx.tier == "thorough"
    res = tlc.run("mc/MC_C07", cfg="mc/MC_C07_%s.cfg" % ("thorough" if thorough else "quick"), dump=True, timeout=3400)
    ctx.add_tlc(res)
    sts = [s for s in tlc.states_parallel(res, "out") if "recs" in s]
    tlc.cleanup(res)
    if not sts:
        raise MachineryFailure("no states")
    nexc = 12 if thorough else 6
    # states of the same system (same A and adaptation, different baseline / bounds) run back to back in one process
    groups = grouped(sts, lambda st: repr((st["sys"]["A"], st["sys"]["Kn"], st["sys"]["DK"])))
    gparts = pmap(_group, [([(st, nexc) for st in g]) for g in groups], chunksize=1)
    sts = [st for g in groups for st in g]
    parts = [r for gp in gparts for r in gp]
    for st, (bad, nfit) in zip(sts, parts):
        for clause, where, exp, obs, r in bad:
            ctx.violation(clause, where, dict(sys=st["sys"], rec=r, fam=st["fam"]), exp, obs)
        ctx.evaluations += nfit
        ctx.count("systems:" + st["fam"])
        for r in st["recs"]:
            ctx.count("targets:%s%s" % (r["cls"], ":certified-corner" if r["pcorner"] else ""))
            if r["cls"] != "interior" or r["pcorner"]:
                ctx.nontrivial.add((repr(st["sys"]), tuple(r["b"])))
    ctx.traces += len(sts)
    for st in sts[:2]:
        ctx.sample(dict(sys=st["sys"], rec=st["recs"][0] if st["recs"] else None))
    ctx.assumptions += ["out-of-gamut optima that are not certified box corners are checked only through the necessary condition 'not worse than the best of 3^n probe points' (DESIGN: C07 not decided)",
                        "the value of the Poisson likelihood is computed by the harness in floating point (TLC has no logarithm)"]
    return ctx.finish(rule=RULE, exhaustive=True)


def replay(ctx, rep):
    c = rep["case"]
    st = dict(fam=c.get("fam", "?"), sys=c["sys"], recs=[c["rec"]] if c.get("rec") else [])
    if not st["recs"]:
        return 1
    bad, _ = replay_state((st, 1))
    for b in bad:
        print("still failing:", b[0], b[1], b[3])
    return 1 if bad else 0
