"""C07 — Poisson and excitation models minimise their objective; all agree in gamut."""
import itertools

import numpy as np

from .. import tlc, dsys
from ..common import MachineryFailure, import_dreye, pmap, grouped

RULE = ("one TLC state per lattice system (non-negative A, K none/scalar/vector, baseline none/scalar/vector) with "
        "positive grid targets; per target the exact gamut class, the Poisson optimum where a box corner carries an "
        "exact (log-free) KKT certificate, and the exact excitation objective of the best of 3^n probe points; "
        "replayed into fit(model='poisson'|'excitation'|'gaussian'): bounds, in-gamut reproduction by all three "
        "models, certified Poisson optimum, and 'not worse than the best probe point' (necessary condition) for both "
        "objectives; plus optima that are not corners, constructed backwards with an exact KKT certificate (free "
        "sources strictly inside their bounds, the others at the bound the gradient asks for): the Poisson prediction "
        "must equal the certified capture, the excitation objective the certified minimax value.  non-trivial = "
        "out-of-gamut target or certified optimum; distinct = (system, target, model)")

TOL = 2e-2
TOL_BACK_P = 5e-3     # certified non-corner Poisson optima: measured deviation of the default solver <= 1e-3
TOL_BACK_E = 1e-3     # certified excitation optimum value delta (0.005..0.04): measured deviation <= 2e-4


def exc_obj(b, q):
    return np.max(np.abs(b / (1 + b) - q / (1 + q)))


def poisson_nll(b, q):
    q = np.maximum(q, 1e-300)
    return np.sum(q - b * np.log(q))


def replay_state(args):
    st, nexc = args
    dreye = import_dreye()
    s = st["sys"]
    A, lb, ub, K, bl = dsys.floats(s)
    D, DK = s["D"], s["DK"]
    S = D * DK
    Kmat = np.asarray(s["Kn"], float) / DK
    blv = np.asarray(s["bl"], float) / D
    where0 = dict(fam=st["fam"], **dsys.sys_where(s))
    bad = []
    recs = sorted(st["recs"], key=lambda r: r["b"])
    if not recs:
        return bad, 0
    B = np.array([dsys.b_float(s, r["b"]) for r in recs])
    est = dsys.make_estimator(dreye, s)
    rng = np.maximum(ub - lb, 0.1)      # (a pinned source, lb = ub, is met to solver accuracy)
    probes = np.array(list(itertools.product(*[(l, (l + u) / 2, u) for l, u in zip(lb, ub)])))
    qprobes = (probes @ A.T + blv) @ Kmat.T
    nfit = 0

    def common(model, X, Bp, rows):
        for j, k in enumerate(rows):
            r = recs[k]
            w = dict(model=model, cls=r["cls"], **where0)
            x = X[j]
            if np.any(x < lb - 1e-2 * rng) or np.any(x > ub + 1e-2 * rng):
                bad.append(("C07.bounds", w, [lb.tolist(), ub.tolist()], x.tolist(), r))
            pred = Kmat @ (A @ x + blv)
            if np.max(np.abs(Bp[j] - pred)) > 1e-9 * (1 + np.max(np.abs(pred))):
                bad.append(("C07.pred-identity", w, pred.tolist(), Bp[j].tolist(), r))
            if r["cls"] == "interior" and np.max(np.abs(pred - B[k])) > TOL:
                bad.append(("C07.in-gamut-reproduced", w, B[k].tolist(), pred.tolist(), r))

    # gaussian and poisson on all targets
    for model in ("gaussian", "poisson"):
        try:
            X, Bp = est.fit(B.copy(), model=model)
            X, Bp = np.asarray(X, float), np.asarray(Bp, float)
            nfit += len(recs)
        except Exception as ex:
            bad.append(("C07.no-error", dict(model=model, exc=type(ex).__name__, **where0), None, repr(ex)[:200], None))
            continue
        common(model, X, Bp, range(len(recs)))
        if model == "poisson":
            for k, r in enumerate(recs):
                w = dict(model=model, cls=r["cls"], certified=bool(r["pcorner"]), **where0)
                pred = Kmat @ (A @ X[k] + blv)
                if r["pcorner"] and r["cls"] != "interior":
                    qc = np.asarray(r["pcorner_q"], float) / S
                    if np.max(np.abs(pred - qc)) > TOL:
                        bad.append(("C07.poisson-optimum", w, qc.tolist(), pred.tolist(), r))
                # necessary condition: not worse than any probe point of the box
                valid = np.all(qprobes > 0, axis=1)
                if valid.any():
                    best = min(poisson_nll(B[k], q) for q in qprobes[valid])
                    mine = poisson_nll(B[k], pred)
                    if mine > best + TOL * (1 + abs(best)) * 0.5:
                        bad.append(("C07.poisson-optimum", dict(kind="worse-than-probe", **w), float(best), float(mine), r))
    # excitation: expensive (bisection): a deterministic subset of the targets
    rows = list(range(len(recs)))
    rows = rows[:: max(1, len(rows) // max(1, nexc))][:nexc]
    if rows:
        try:
            X, Bp = est.fit(B[rows].copy(), model="excitation")
            X, Bp = np.asarray(X, float), np.asarray(Bp, float)
            nfit += len(rows)
            common("excitation", X, Bp, rows)
            for j, k in enumerate(rows):
                r = recs[k]
                pred = Kmat @ (A @ X[j] + blv)
                tbest = r["exc_probe_t"][0] / r["exc_probe_t"][1] * S   # stored as rational of (value / S)
                mine = exc_obj(B[k], pred)
                if mine > tbest + TOL:
                    bad.append(("C07.excitation-optimum", dict(model="excitation", cls=r["cls"], kind="worse-than-probe", **where0), float(tbest), float(mine), r))
        except Exception as ex:
            bad.append(("C07.no-error", dict(model="excitation", exc=type(ex).__name__, **where0), None, repr(ex)[:200], None))
    # the same abstract targets in another representation: integer dtype (photon counts).  Rows whose captures are whole
    # numbers are handed over as int64; the answer must be the one for the float rows (in-gamut rows reproduced, the
    # objective not worse than with float targets)
    irows = [k for k in range(len(recs)) if np.all(B[k] == np.round(B[k]))]
    irows = ([k for k in irows if recs[k]["cls"] == "interior"][:3] + [k for k in irows if recs[k]["cls"] != "interior"][:2])
    for model, objf in (("poisson", poisson_nll), ("excitation", exc_obj)):
        rws = irows if model == "poisson" else irows[:2]
        if not rws:
            continue
        try:
            Xi, Bpi = est.fit(B[rws].astype(np.int64), model=model)
            Xf, _ = est.fit(B[rws].copy(), model=model)
            Xi, Bpi, Xf = np.asarray(Xi, float), np.asarray(Bpi, float), np.asarray(Xf, float)
            nfit += 2 * len(rws)
        except Exception as ex:
            bad.append(("C07.no-error", dict(model=model, dtype="int64", exc=type(ex).__name__, **where0), None, repr(ex)[:200], None))
            continue
        n0 = len(bad)
        common(model, Xi, Bpi, rws)
        for v in bad[n0:]:
            v[1]["dtype"] = "int64"
        for j, k in enumerate(rws):
            pi, pf = Kmat @ (A @ Xi[j] + blv), Kmat @ (A @ Xf[j] + blv)
            if np.all(pi > 0) and np.all(pf > 0):
                oi, of = objf(B[k], pi), objf(B[k], pf)
                if oi > of + TOL * (1 + abs(of)) * 0.5:
                    bad.append(("C07.%s-optimum" % model, dict(model=model, cls=recs[k]["cls"], kind="int64-targets-worse-than-float-targets", **where0), float(of), float(oi), recs[k]))
    nfit += replay_back(dreye, st, s, nexc, bad, where0)
    return bad, nfit


def replay_back(dreye, st, s, nexc, bad, where0):
    """certified optima that are not box corners (Models.tla, BackRecord): the Poisson prediction must be the certified
    capture q, the excitation objective of the returned fit must equal the certified optimal value delta"""
    recs = sorted(st.get("back", []), key=repr)
    if not recs:
        return 0
    A, lb, ub, K, bl = dsys.floats(s)
    S = s["D"] * s["DK"]
    Kmat = np.asarray(s["Kn"], float) / s["DK"]
    blv = np.asarray(s["bl"], float) / s["D"]
    nfit = 0
    for wkey in sorted({tuple(r["w"]) for r in recs}):
        rs = [r for r in recs if tuple(r["w"]) == wkey]
        B = np.array([[a / b for a, b in zip(r["pbn"], r["pbd"])] for r in rs])
        w = dict(model="poisson", back=True, weights=list(wkey), **where0)
        try:
            est = dsys.make_estimator(dreye, s)
            est.w = est.W = np.asarray(wkey, float)
            X, Bp = est.fit(B.copy(), model="poisson")
            nfit += len(rs)
            for k, r in enumerate(rs):
                q = np.asarray(r["q"], float) / S
                pred = Kmat @ (A @ np.asarray(X, float)[k] + blv)
                if np.max(np.abs(pred - q)) > TOL_BACK_P or np.max(np.abs(np.asarray(Bp, float)[k] - pred)) > 1e-9 * (1 + np.max(np.abs(pred))):
                    bad.append(("C07.poisson-optimum", dict(nfree=len(r["F"]), **w), q.tolist(), pred.tolist(), r))
        except Exception as ex:
            bad.append(("C07.no-error", dict(exc=type(ex).__name__, **w), None, repr(ex)[:200], None))
    # the same certified optima in other physical units (functional API): intensities in units s times larger, captures
    # in units c times smaller; asserted when the twin stays in the well-scaled regime (captures <= 100, ub >= 0.05)
    from dreye.api.optimize.lsq_linear import lsq_linear
    Kf = None if K is None else np.atleast_1d(K)
    rs = [r for r in recs if all(v == 1 for v in r["w"])]
    qmax = max((max(r["q"]) for r in rs), default=0) / S
    for sc, cc in ((20.0, 50.0), (20.0, 10.0), (0.5, 2.0)):
        if not rs or qmax * cc > 100.0 or np.min(ub) / sc < 0.05 or np.max(ub) / sc > 10.0:
            continue
        w = dict(model="poisson", back=True, twin=[sc, cc], **where0)
        try:
            Bt = np.array([[a / b for a, b in zip(r["pbn"], r["pbd"])] for r in rs]) * cc
            Xt, Bpt = lsq_linear(A * (sc * cc), Bt, lb=lb / sc, ub=ub / sc, K=Kf, baseline=(None if bl is None else np.asarray(bl) * cc),
                                 model="poisson", return_pred=True)
            nfit += len(rs)
            for k, r in enumerate(rs):
                q = np.asarray(r["q"], float) / S * cc
                if np.max(np.abs(np.asarray(Bpt, float)[k] - q)) > TOL_BACK_P * cc:
                    bad.append(("C07.poisson-optimum", dict(nfree=len(r["F"]), **w), q.tolist(), np.asarray(Bpt, float)[k].tolist(), r))
        except Exception as ex:
            bad.append(("C07.no-error", dict(exc=type(ex).__name__, **w), None, repr(ex)[:200], None))
    # per-sample weights registered with the targets, in- and out-of-gamut rows interleaved in one call: every
    # certified row must be fitted with the weights of its own row
    rw = [r for r in recs if any(v != 1 for v in r["w"])][:1]
    r1 = [r for r in recs if all(v == 1 for v in r["w"])][:1]
    ins = [r for r in sorted(st["recs"], key=lambda r: r["b"]) if r["cls"] == "interior"][:2]
    if rw and r1 and len(ins) == 2:
        d = A.shape[0]
        Bm = np.array([dsys.b_float(s, ins[0]["b"]), [a / b for a, b in zip(rw[0]["pbn"], rw[0]["pbd"])],
                       dsys.b_float(s, ins[1]["b"]), [a / b for a, b in zip(r1[0]["pbn"], r1[0]["pbd"])]])
        Wm = np.array([np.ones(d), np.asarray(rw[0]["w"], float), np.ones(d), np.ones(d)])
        w = dict(model="poisson", back=True, weights="per-sample", **where0)
        try:
            est = dsys.make_estimator(dreye, s)
            est.register_targets(Bm.copy(), Wm.copy())
            est.fit(model="poisson")
            nfit += 4
            Xm = np.asarray(est.X, float)
            for k, r in ((1, rw[0]), (3, r1[0])):
                q = np.asarray(r["q"], float) / S
                pred = Kmat @ (A @ Xm[k] + blv)
                if np.max(np.abs(pred - q)) > TOL_BACK_P:
                    bad.append(("C07.poisson-optimum", dict(row=k, **w), q.tolist(), pred.tolist(), r))
            for k, r in ((0, ins[0]), (2, ins[1])):
                pred = Kmat @ (A @ Xm[k] + blv)
                if np.max(np.abs(pred - Bm[k])) > TOL:
                    bad.append(("C07.in-gamut-reproduced", dict(row=k, **w), Bm[k].tolist(), pred.tolist(), r))
        except Exception as ex:
            bad.append(("C07.no-error", dict(exc=type(ex).__name__, **w), None, repr(ex)[:200], None))
    rs = [r for r in recs if all(v == 1 for v in r["w"])]
    rs = rs[:: max(1, len(rs) // max(1, nexc))][:nexc]
    if rs:
        B = np.array([[a / b for a, b in r["eb"]] for r in rs])
        w = dict(model="excitation", back=True, **where0)
        try:
            est = dsys.make_estimator(dreye, s)
            X, Bp = est.fit(B.copy(), model="excitation")
            nfit += len(rs)
            for k, r in enumerate(rs):
                delta = r["delta"][0] / r["delta"][1]
                pred = Kmat @ (A @ np.asarray(X, float)[k] + blv)
                mine = exc_obj(B[k], pred)
                if abs(mine - delta) > TOL_BACK_E:
                    bad.append(("C07.excitation-optimum", dict(nfree=len(r["F"]), kind="better-than-optimum" if mine < delta else "worse-than-optimum", **w), delta, float(mine), r))
        except Exception as ex:
            bad.append(("C07.no-error", dict(exc=type(ex).__name__, **w), None, repr(ex)[:200], None))
    return nfit


def _group(jobs):
    return [replay_state(j) for j in jobs]


def run(ctx):
    thorough = ctx.tier == "thorough"
    res = tlc.run("mc/MC_C07", cfg="mc/MC_C07_%s.cfg" % ("thorough" if thorough else "quick"), dump=True, timeout=3400)
    ctx.add_tlc(res)
    sts = [s for s in tlc.states_parallel(res, "out") if "recs" in s]
    tlc.cleanup(res)
    if not sts:
        raise MachineryFailure("no states")
    nexc = 12 if thorough else 6
    # states of the same system (same A and adaptation, different baseline / bounds) run back to back in one process
    groups = grouped(sts, lambda st: repr((st["sys"]["A"], st["sys"]["Kn"], st["sys"]["DK"])))
    gparts = pmap(_group, [([(st, nexc) for st in g]) for g in groups], chunksize=1)
    sts = [st for g in groups for st in g]
    parts = [r for gp in gparts for r in gp]
    for st, (bad, nfit) in zip(sts, parts):
        for clause, where, exp, obs, r in bad:
            ctx.violation(clause, where, dict(sys=st["sys"], rec=r, fam=st["fam"]), exp, obs)
        ctx.evaluations += nfit
        ctx.count("systems:" + st["fam"])
        for r in st["recs"]:
            ctx.count("targets:%s%s" % (r["cls"], ":certified-corner" if r["pcorner"] else ""))
            if r["cls"] != "interior" or r["pcorner"]:
                ctx.nontrivial.add((repr(st["sys"]), tuple(r["b"])))
        for r in st.get("back", []):
            ctx.count("certified non-corner optima: %d free source(s)" % len(r["F"]))
            ctx.nontrivial.add((repr(st["sys"]), "back", repr(r["x"]), r["t"], r["m"], tuple(r["w"])))
    ctx.traces += len(sts)
    for st in sts[:2]:
        ctx.sample(dict(sys=st["sys"], rec=st["recs"][0] if st["recs"] else None))
    ctx.assumptions += ["out-of-gamut grid targets whose optimum is not a certified box corner are checked only through the necessary condition 'not worse than the best of 3^n probe points' (DESIGN: C07 not decided)",
                        "the value of the Poisson likelihood is computed by the harness in floating point (TLC has no logarithm)"]
    return ctx.finish(rule=RULE, exhaustive=True)


def replay(ctx, rep):
    c = rep["case"]
    rec = c.get("rec")
    if rec and "pbn" in rec:
        st = dict(fam=c.get("fam", "?"), sys=c["sys"], recs=[], back=[rec])
        bad = []
        replay_back(import_dreye(), st, c["sys"], 1, bad, dict(fam=st["fam"]))
        for b in bad:
            print("still failing:", b[0], b[1], b[3])
        return 1 if bad else 0
    st = dict(fam=c.get("fam", "?"), sys=c["sys"], recs=[rec] if rec else [])
    if not st["recs"]:
        return 1
    bad, _ = replay_state((st, 1))
    for b in bad:
        print("still failing:", b[0], b[1], b[3])
    return 1 if bad else 0
