"""C13 — samples drawn in the gamut are in the gamut, reproducible and uniform."""
import numpy as np

from .. import tlc, dsys
from ..common import MachineryFailure, import_dreye, pmap

RULE = ("clouds of MC_C13 (triangle, quad with interior points, strongly skewed, collinear edge points, hexagon; two 3-D "
        "clouds) with exact facets and an exact fan triangulation whose areas TLC proves to tile the hull; sample sets "
        "of sample_in_hull (default engine and Halton / Sobol / LHC, n = 1..1000, seeds) and of "
        "ReceptorEstimator.sample_in_gamut (with and without l1) are recorded in fixed point and validated by "
        "Trace_C13 under TLC: exact count, every point inside every exact facet, totals = l1, identical sets for "
        "identical seeds, and region counts of 20000 default-engine samples within 6 sigma of n x exact area fraction. "
        "non-trivial = sample set with n >= 2; distinct = (cloud, n, seed, engine, l1)")

S = 10000
TOL = 2


def tri_index(pts, regions):
    """index of the fan triangle containing each point (regions: list of 3 integer vertices)"""
    idx = -np.ones(len(pts), int)
    for k, tri in enumerate(regions):
        a, b, c = [np.array(v, float) for v in tri]
        T = np.array([b - a, c - a]).T
        lam = np.linalg.solve(T, (pts - a).T).T
        inside = (lam[:, 0] >= -1e-12) & (lam[:, 1] >= -1e-12) & (lam.sum(1) <= 1 + 1e-12)
        idx[(idx < 0) & inside] = k
    return idx


def drive_cloud(args):
    st, seed, thorough = args
    dreye = import_dreye()
    P = np.array(sorted(st["P"]), float)
    Pi = P.astype(int).tolist()
    events, bad = [], []
    d = st["d"]
    ns = [1, 2, 10, 1000] if not thorough else [1, 2, 10, 1000, 5000]
    for engine in (None, "Halton", "Sobol", "LHC"):
        for n in (ns if engine is None else [8, 64]):
            for sd in (0, seed, seed + 1):      # "all seeds" includes 0
                key = (repr(Pi), n, sd, engine)
                for rep in range(3):
                    # third repetition: the same seed as a numpy integer (same abstract seed, other representation)
                    w = dict(op="sample_in_hull", d=d, engine=str(engine), n=n, seedtype="int" if rep < 2 else "np.int64")
                    try:
                        X = np.asarray(dreye.sample_in_hull(P.copy(), n, seed=(sd if rep < 2 else np.int64(sd)), engine=engine), float)
                        events.append(dict(ev="sample", P=Pi, n=n, count=int(X.shape[0]) if X.ndim == 2 and X.shape[1] == d else -1,
                                           pts=np.rint(X * S).astype(int).tolist(), S=S, tol=TOL, key=key, meta=w))
                    except Exception as ex:
                        bad.append(("C13.no-error", dict(exc=type(ex).__name__, **w), None, repr(ex)[:200]))
    if d == 2 and st.get("A"):
        # the same polygon as the gamut of a registered system: samples drawn through the estimator (default engine)
        # must be uniform over it as well, also when there are more sources than receptors
        n = 20000
        regs = sorted([r["tri"] for r in st["regions"]])
        A = [list(r) for r in st["A"]]
        sysd = dict(A=A, D=1, lb=[0] * len(A[0]), ub=list(st["ub"]), kk="none", Kn=np.eye(len(A)).astype(int).tolist(), DK=1, bk="none", bl=[0] * len(A))
        for sd in (seed + 7, 0):
            w = dict(op="sample_in_gamut", d=d, engine="None", n=n, uniform=True, nsrc=len(A[0]))
            try:
                est = dsys.make_estimator(dreye, sysd)
                X = np.asarray(est.sample_in_gamut(n, seed=sd), float)
                idx = tri_index(X, regs)
                counts = [int(np.sum(idx == k)) for k in range(len(regs))]
                events.append(dict(ev="counts", P=Pi, n=n, regions=regs, counts=counts, meta=w))
            except Exception as ex:
                bad.append(("C13.no-error", dict(exc=type(ex).__name__, **w), None, repr(ex)[:200]))
    if d == 2:
        n = 20000
        regs = sorted([r["tri"] for r in st["regions"]])
        for sd in (seed + 7, seed + 8):
            w = dict(op="sample_in_hull", d=d, engine="None", n=n, uniform=True)
            try:
                X = np.asarray(dreye.sample_in_hull(P.copy(), n, seed=sd), float)
                idx = tri_index(X, regs)
                counts = [int(np.sum(idx == k)) for k in range(len(regs))]
                events.append(dict(ev="counts", P=Pi, n=n, regions=regs, counts=counts, meta=w))
            except Exception as ex:
                bad.append(("C13.no-error", dict(exc=type(ex).__name__, **w), None, repr(ex)[:200]))
    return bad, events


def drive_estimator(seed):
    dreye = import_dreye()
    events, bad = [], []
    for A, ubv in (([[2, 1], [1, 3]], 1.0), ([[3, 1, 0], [0, 1, 2]], 1.0), ([[3, 1, 0], [1, 2, 1], [0, 1, 3]], 2.0), ([[3, 1, 0, 1], [1, 2, 1, 0], [0, 1, 3, 2]], 1.0)):
        n_src = len(A[0])
        sysd = dict(A=A, D=1, lb=[0] * n_src, ub=[int(ubv)] * n_src, kk="none", Kn=np.eye(len(A)).astype(int).tolist(), DK=1, bk="none", bl=[0] * len(A))
        est = dsys.make_estimator(dreye, sysd)
        import itertools
        corners = sorted({tuple(int(v) for v in (np.array(A) @ (np.array(x) * int(ubv)))) for x in itertools.product([0, 1], repeat=n_src)})
        nz = [list(c) for c in corners if any(c)]
        d = len(A)
        for n in (1, 10, 300):
            for sd in (0, seed, seed + 3):
                for engine in (None, "Halton"):
                    key = ("est", repr(A), n, sd, str(engine), None)
                    for rep in range(2):
                        w = dict(op="sample_in_gamut", d=d, engine=str(engine), n=n, l1=False)
                        try:
                            X = np.asarray(est.sample_in_gamut(n, seed=sd, engine=engine), float)
                            events.append(dict(ev="sample", P=[list(c) for c in corners], n=n, count=int(X.shape[0]) if X.ndim == 2 and X.shape[1] == d else -1,
                                               pts=np.rint(X * S).astype(int).tolist(), S=S, tol=TOL, key=key, meta=w))
                        except Exception as ex:
                            bad.append(("C13.no-error", dict(exc=type(ex).__name__, **w), None, repr(ex)[:200]))
                    # requested totals: below every lit corner (the slice of the gamut is the slice of its cone), and
                    # at half and at 0.9 of the largest total the system can produce (a proper slice of the zonotope)
                    tmax = max(sum(c) for c in corners)
                    for l1, lkind in ((2.0, "low"), (tmax / 2, "half"), (0.9 * tmax, "high")):
                        key = ("est", repr(A), n, sd, str(engine), lkind)
                        for rep in range(2):
                            w = dict(op="sample_in_gamut", d=d, engine=str(engine), n=n, l1=lkind)
                            try:
                                X = np.asarray(est.sample_in_gamut(n, seed=sd, engine=engine, l1=float(l1)), float)
                                events.append(dict(ev="l1", G=[list(c) for c in corners], n=n, l1S=int(round(l1 * S)), count=int(X.shape[0]) if X.ndim == 2 and X.shape[1] == d else -1,
                                                   pts=np.rint(X * S).astype(int).tolist(), S=S, tol=TOL, key=key, meta=w))
                            except Exception as ex:
                                bad.append(("C13.no-error", dict(exc=type(ex).__name__, **w), None, repr(ex)[:200]))
        # positive lower bounds: the darkest corner of the gamut is not the dark point; a requested total between the
        # darkest and the second-darkest corner is a proper slice of the gamut near that corner
        try:
            sysl = dict(sysd, lb=[1] * n_src, ub=[2] * n_src)
            estl = dsys.make_estimator(dreye, sysl)
            cl = sorted({tuple(int(v) for v in (np.array(A) @ np.array(x))) for x in itertools.product([1, 2], repeat=n_src)})
            tots = sorted({sum(c) for c in cl})
            l1 = (tots[0] + tots[1]) / 2.0
            for engine in (None, "Sobol"):
                w = dict(op="sample_in_gamut", d=d, engine=str(engine), n=200, l1="between the two darkest corners", lbpos=True)
                X = np.asarray(estl.sample_in_gamut(200, seed=seed, engine=engine, l1=float(l1)), float)
                events.append(dict(ev="l1", G=[list(c) for c in cl], n=200, l1S=int(round(l1 * S)), count=int(X.shape[0]), pts=np.rint(X * S).astype(int).tolist(), S=S, tol=TOL,
                                   key=("estl", repr(A), str(engine)), meta=w))
        except Exception as ex:
            bad.append(("C13.no-error", dict(exc=type(ex).__name__, op="sample_in_gamut", lbpos=True, d=d), None, repr(ex)[:200]))
        # no upper bounds, and a baseline or positive lower bounds: the gamut is a cone shifted by its apex
        try:
            for lbq, blq in (([0] * n_src, [1] * d), ([1] * n_src, [0] * d)):
                sysu = dict(sysd, lb=lbq, ub=[dsys.INF] * n_src, bk=("vector" if any(blq) else "none"), bl=blq)
                estu = dsys.make_estimator(dreye, sysu)
                apex = np.array(A) @ np.array(lbq) + np.array(blq)
                l1 = float(apex.sum()) * 1.5 + 2.0
                w = dict(op="sample_in_gamut", d=d, engine="None", n=200, l1="unbounded", lbpos=any(lbq), baseline=any(blq))
                X = np.asarray(estu.sample_in_gamut(200, seed=seed, l1=l1), float)
                events.append(dict(ev="l1cone", M=[list(r) for r in A], apexS=[int(v * S) for v in apex], n=200, l1S=int(round(l1 * S)), count=int(X.shape[0]),
                                   pts=np.rint(X * S).astype(int).tolist(), S=S, tol=TOL, key=("estu", repr(A), repr(lbq)), meta=w))
        except Exception as ex:
            bad.append(("C13.no-error", dict(exc=type(ex).__name__, op="sample_in_gamut", unbounded=True, d=d), None, repr(ex)[:200]))
        # the same estimator after its bounds have been changed: samples must come from the NEW gamut
        try:
            newub = [1] * (n_src - 1) + [0]
            est.register_bounds(ub=np.array(newub, float) * ubv if any(newub) else None)
            corners2 = sorted({tuple(int(v) for v in (np.array(A) @ (np.array(x) * np.array(newub) * int(ubv)))) for x in itertools.product([0, 1], repeat=n_src)})
            if n_src - 1 >= len(A):      # the reduced system must still have a full-dimensional gamut
                for l1 in (None, 2):
                    w = dict(op="sample_in_gamut", d=d, engine="None", n=200, l1=l1 is not None, after_register_bounds=True)
                    X = np.asarray(est.sample_in_gamut(200, seed=seed, **({} if l1 is None else {"l1": float(l1)})), float)
                    if l1 is None:
                        events.append(dict(ev="sample", P=[list(c) for c in corners2], n=200, count=int(X.shape[0]), pts=np.rint(X * S).astype(int).tolist(), S=S, tol=TOL,
                                           key=("est2", repr(A), None), meta=w))
                    else:
                        events.append(dict(ev="l1", G=[list(c) for c in corners2], n=200, l1S=int(round(l1 * S)), count=int(X.shape[0]), pts=np.rint(X * S).astype(int).tolist(), S=S, tol=TOL,
                                           key=("est2", repr(A), l1), meta=w))
        except Exception as ex:
            bad.append(("C13.no-error", dict(exc=type(ex).__name__, op="sample_in_gamut", after_register_bounds=True, d=d), None, repr(ex)[:200]))
    return bad, events


def drive_symmetry(seed):
    """3-receptor gamuts with more sources than receptors (parallelogram facets, coplanar up to round-off): the default
    engine must sample them uniformly; tested through the central symmetry of the zonotope (no region volumes needed)"""
    dreye = import_dreye()
    events, bad = [], []
    systems = [[[3, 1, 0, 1, 2], [1, 2, 1, 0, 1], [0, 1, 3, 2, 1]],
               [[2, 1, 0, 1, 1, 3], [1, 3, 1, 0, 2, 0], [0, 1, 2, 3, 1, 1]],
               [[3, 0, 1, 2, 1], [0, 3, 1, 1, 2], [1, 1, 3, 0, 1]],
               [[1, 2, 0, 3, 1, 1], [2, 0, 1, 1, 3, 1], [0, 1, 3, 1, 1, 2]]]
    dirs = np.array([[1, 0, 0], [0, 1, 0], [0, 0, 1], [1, 1, 1], [1, -1, 0], [0, 1, -1], [2, -1, 1]], float)
    n = 40000
    for A in systems:
        n_src = len(A[0])
        sysd = dict(A=A, D=1, lb=[0] * n_src, ub=[1] * n_src, kk="none", Kn=np.eye(3).astype(int).tolist(), DK=1, bk="none", bl=[0, 0, 0])
        w = dict(op="sample_in_gamut", d=3, engine="None", n=n, uniform=True, nsrc=n_src, symmetry=True)
        try:
            est = dsys.make_estimator(dreye, sysd)
            X = np.asarray(est.sample_in_gamut(n, seed=seed), float)
            c = np.array(A, float) @ (np.ones(n_src) / 2)
            half = np.abs(np.array(A, float).T @ dirs.T).sum(0) / 2          # support of the zonotope about its centre
            plus, minus = [], []
            for u, h in zip(dirs, half):
                p = (X - c) @ u
                for frac in (0.0, 0.3, 0.6):
                    plus.append(int(np.sum(p > frac * h)))
                    minus.append(int(np.sum(p < -frac * h)))
            events.append(dict(ev="sym", n=n, plus=plus, minus=minus, meta=w))
        except Exception as ex:
            bad.append(("C13.no-error", dict(exc=type(ex).__name__, **w), None, repr(ex)[:200]))
    return bad, events


def run(ctx):
    thorough = ctx.tier == "thorough"
    res = tlc.run("mc/MC_C13", cfg="mc/MC_C13_quick.cfg", dump=True)
    ctx.add_tlc(res)
    sts = [s for s in tlc.states_parallel(res, "out") if "P" in s]
    tlc.cleanup(res)
    if not sts:
        raise MachineryFailure("no clouds")
    parts = pmap(drive_cloud, [(st, ctx.seed * 10 + 1, thorough) for st in sts], chunksize=1)
    events = []
    for bad, ev in parts:
        for clause, where, exp, obs in bad:
            ctx.violation(clause, where, dict(), exp, obs)
        events += ev
    bad, ev = drive_symmetry(ctx.seed * 10 + 3)
    for clause, where, exp, obs in bad:
        ctx.violation(clause, where, dict(), exp, obs)
    events += ev
    bad, ev = drive_estimator(ctx.seed * 10 + 1)
    for clause, where, exp, obs in bad:
        ctx.violation(clause, where, dict(), exp, obs)
    events += ev
    keys = {}
    for e in events:
        if "key" in e:
            e["key"] = keys.setdefault(e["key"], len(keys) + 1)
    trace = [dict(ev="Header", i=0, nkeys=max(1, len(keys)))]
    for i, e in enumerate(events):
        t = {k: v for k, v in e.items() if k != "meta"}
        t["i"] = i + 2
        trace.append(t)
    tres, badl, path = tlc.validate_trace("Trace_C13", trace, "C13", timeout=3000)
    ctx.add_tlc(tres)
    for _, idx, clause in badl:
        e = events[idx - 2]
        small = {k: (v if k != "pts" else v[:5]) for k, v in e.items() if k != "meta"}
        ctx.violation(clause, e["meta"], small, None, None)
    ctx.traces += len(events)
    ctx.evaluations += len(events)
    for e in events:
        ctx.count("%s:%s:d=%d" % (e["ev"], e["meta"]["engine"], e["meta"]["d"]))
        if e["n"] >= 2:
            ctx.nontrivial.add((e["ev"], repr(e.get("P", e.get("G"))), e["n"], e.get("key"), repr(e.get("counts"))))
    ctx.extra["points_validated"] = int(sum(len(e.get("pts", [])) for e in events) + sum(e["n"] for e in events if e["ev"] == "counts"))
    cnt = [e for e in events if e["ev"] == "counts"][:1]
    ctx.sample({k: v for k, v in cnt[0].items() if k != "meta"} if cnt else {})
    s0 = events[0]
    ctx.sample({k: (v if k != "pts" else v[:3]) for k, v in s0.items() if k != "meta"})
    ctx.assumptions += ["uniformity is a statistical test against exact area fractions: |count - n p| <= 6 sqrt(n p (1-p)) + 1 per fan triangle (false-alarm probability < 1e-8 per region); seeds derive from VERIF_SEED",
                        "samples logged in fixed point 1e-4 with 2 units tolerance; n up to 1000 per logged set (5000 thorough), 20000 for counts"]
    return ctx.finish(rule=RULE, exhaustive=False)


def replay(ctx, rep):
    """No case-level replay for this property (the failing case depends on recorded / random executions or on the
    spec's answers): re-run the whole quick check against the current tree; exit 0 iff nothing is violated any more."""
    print("replaying by re-running the check; recorded case:", str(rep.get("case"))[:300])
    return run(ctx)
