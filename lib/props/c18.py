"""C18 — gamut-size and divergence metrics equal their geometric / information definitions."""
import itertools
import random

import numpy as np

from .. import tlc
from ..common import MachineryFailure, import_dreye, pmap

RULE = ("states of MC_C18 = transformation histories (translate, signed permutation, scale, add point) of base clouds "
        "(2-D lattice polygons, a flat cloud, 2-D / 3-D zonotopes with integer edge lengths) with exact facts per state "
        "(doubled area, squared length of a flat cloud, zonotope volume, mean-width coefficient; TLC checks the exact "
        "area laws as action properties); the code's volume / seeded mean width are compared with the exact values, and "
        "the measured (before, after) pairs of every step plus Jensen-Shannon measurements are validated by Trace_C18 "
        "under TLC (invariance, homogeneity, monotonicity; symmetry, normalisation invariance, zero iff proportional, "
        "<= 1 bit); gamut-metric relations are checked on the same clouds.  non-trivial = history with >= 1 step; "
        "distinct = history")

S = 100000
CD = {2: 2 / np.pi, 3: 0.5}


def apply_ops(P, hist):
    P = np.array(sorted(P), float)
    seq = [P]
    for a in hist:
        if a["op"] == "translate":
            P = P + np.array(a["a"], float)
        elif a["op"] == "signperm":
            P = P[:, [i - 1 for i in a["a"]]] * np.array(a["b"], float)
        elif a["op"] == "scale":
            P = P * a["a"][0]
        elif a["op"] == "addpoint":
            P = np.vstack([P, np.array(a["a"], float)])
        seq.append(P)
    return seq


def replay_state(st):
    dreye = import_dreye()
    bad, events = [], []
    base = st["meta"]
    hist = st["hist"]
    seq = apply_ops(base["P"], hist)
    P = seq[-1]
    d = P.shape[1]
    ex = st["exact"]
    where0 = dict(base=base["name"], d=d, nops=len(hist), last=(hist[-1]["op"] if hist else "none"))
    # consistency of the harness' transformation with the spec's cloud
    if sorted(map(tuple, np.unique(P, axis=0).tolist())) != sorted(map(tuple, np.array(st["cloud"], float).tolist())):
        raise MachineryFailure("harness / spec cloud mismatch for %r" % (hist,))
    try:
        vol = float(dreye.compute_volume(P.copy()))
        wid = float(dreye.compute_mean_width(P.copy(), n=4000, seed=11))
        if ex["area2"] >= 0 and abs(vol - ex["area2"] / 2) > 1e-9 * (1 + ex["area2"]):
            bad.append(("C18.volume-value", where0, ex["area2"] / 2, vol))
        if ex["flat2"] >= 0 and abs(vol - ex["flat2"] ** 0.5) > 1e-7 * (1 + ex["flat2"] ** 0.5):
            bad.append(("C18.volume-value", dict(flat=True, **where0), ex["flat2"] ** 0.5, vol))
        if ex["zvol"] >= 0 and abs(vol - ex["zvol"]) > 1e-9 * (1 + ex["zvol"]):
            bad.append(("C18.volume-value", dict(zonotope=True, **where0), ex["zvol"], vol))
        # proj_P_for_hull reduces a flat cloud to its affine span: the dimension it reports is the exact affine rank
        if ex["affdim"] >= 1:
            ndim = int(dreye.proj_P_for_hull(P.copy(), return_ndim=True, return_hull=False))
            if ndim != ex["affdim"]:
                bad.append(("C18.affine-dimension", where0, ex["affdim"], ndim))
        # compute_mean_correlation of the cloud (each point once): (2 * value)^2 is the exact squared correlation
        if ex["corr2"][0] >= 0:
            U = np.unique(P, axis=0)
            mc = float(dreye.compute_mean_correlation(U.copy()))
            want = ex["corr2"][0] / ex["corr2"][1]
            if abs((2 * mc) ** 2 - want) > 1e-9:
                bad.append(("C18.mean-correlation", where0, want, (2 * mc) ** 2))
        # rigid motions and changes of unit far from the lattice's own scale: a translation by 1e5 and a capture unit
        # of 2^-30 (exact in floating point)
        if (ex["area2"] >= 0 or ex["zvol"] >= 0) and len(hist) <= 1:
            vexact = ex["area2"] / 2 if ex["area2"] >= 0 else ex["zvol"]
            vt = float(dreye.compute_volume(P + 1.0e5))
            if abs(vt - vexact) > 1e-6 * (1 + vexact):
                bad.append(("C18.volume-value", dict(translated_by=1e5, **where0), vexact, vt))
            U = 2.0 ** -30
            vu = float(dreye.compute_volume(P * U)) / U ** d
            if abs(vu - vexact) > 1e-9 * (1 + vexact):
                bad.append(("C18.volume-value", dict(unit="2^-30", **where0), vexact, vu))
        # a planar cloud embedded in 3-D and padded with midpoints (points of its own hull) to more than 32 samples:
        # the hull is the same, so the mean width for the same seed is the same; and its volume within its affine span
        # is the exact area
        if d == 2 and len(hist) <= 1:
            Q = np.hstack([P, np.zeros((len(P), 1))])[:, [2, 0, 1]]
            pad = [Q[i] / 2 + Q[j] / 2 for i in range(len(Q)) for j in range(i + 1, len(Q))]
            k = 0
            while len(pad) < 40:
                pad.append((pad[k] + Q[k % len(Q)]) / 2)
                k += 1
            Qbig = np.vstack([Q, np.array(pad)[:40]])
            for vec in (False, True):
                w_small = float(dreye.compute_mean_width(Q.copy(), n=400, seed=9, vectorized=vec))
                w_big = float(dreye.compute_mean_width(Qbig.copy(), n=400, seed=9, vectorized=vec))
                if abs(w_big - w_small) > 1e-9 * (1 + w_small):
                    bad.append(("C18.width-same-hull", dict(vectorized=vec, embedded="3-D", padded=len(Qbig), **where0), w_small, w_big))
            if ex["area2"] >= 0:
                # ... embedded in 3-, 4- and 5-D (affine span up to three dimensions below the ambient space)
                for extra in (0, 1, 2):
                    Qe = np.hstack([Qbig, np.zeros((len(Qbig), extra))])
                    vq = float(dreye.compute_volume(Qe.copy()))
                    if abs(vq - ex["area2"] / 2) > 1e-7 * (1 + ex["area2"]):
                        bad.append(("C18.volume-value", dict(embedded="%d-D" % (3 + extra), padded=len(Qbig), **where0), ex["area2"] / 2, vq))
            if ex["flat2"] >= 0:
                # a collinear cloud padded to many points, in 3-D and 4-D: its volume is its length
                for extra in (0, 1):
                    Qe = np.hstack([Qbig, np.zeros((len(Qbig), extra))])
                    vq = float(dreye.compute_volume(Qe.copy()))
                    if abs(vq - ex["flat2"] ** 0.5) > 1e-7 * (1 + ex["flat2"] ** 0.5):
                        bad.append(("C18.volume-value", dict(flat=True, embedded="%d-D" % (3 + extra), padded=len(Qbig), **where0), ex["flat2"] ** 0.5, vq))
        if ex["wcoef"] >= 0 and len(hist) <= 1:
            w_exact = CD[d] * ex["wcoef"]
            wbig = float(dreye.compute_mean_width(P.copy(), n=60000, seed=5, vectorized=True))
            if abs(wbig - w_exact) > 0.012 * w_exact:
                bad.append(("C18.width-value", where0, w_exact, wbig))
            w2 = float(dreye.compute_mean_width(P.copy(), n=60000, seed=5, vectorized=True))
            if w2 != wbig:
                bad.append(("C18.width-deterministic", where0, wbig, w2))
            # the `center` flag only says whether the data are centred first: the width itself is translation invariant,
            # so both settings, loop and vectorised, must agree for the same seed (also away from the origin)
            Pt = P + 25.0 + np.arange(d) * 15.0
            ref = float(dreye.compute_mean_width(Pt.copy(), n=500, seed=5, vectorized=False, center=False))
            for vec in (False, True):
                for cen in (False, True):
                    wv = float(dreye.compute_mean_width(Pt.copy(), n=500, seed=5, vectorized=vec, center=cen))
                    if abs(wv - ref) > 1e-9 * (1 + ref):
                        bad.append(("C18.width-translation", dict(vectorized=vec, center=cen, **where0), ref, wv))
            wloop = float(dreye.compute_mean_width(P.copy(), n=500, seed=5, vectorized=False))
            wvec = float(dreye.compute_mean_width(P.copy(), n=500, seed=5, vectorized=True))
            if abs(wloop - wvec) > 1e-9 * (1 + wvec):
                bad.append(("C18.width-deterministic", dict(loop_vs_vectorized=True, **where0), wvec, wloop))
        if hist and base["name"] != "thin":      # (the thin cloud's volumes exceed the fixed-point budget of the trace spec)
            Q = seq[-2]
            vol0 = float(dreye.compute_volume(Q.copy()))
            wid0 = float(dreye.compute_mean_width(Q.copy(), n=4000, seed=11))
            a = hist[-1]
            rk0 = int(np.linalg.matrix_rank(Q - Q[0]))
            rk1 = int(np.linalg.matrix_rank(P - P[0]))
            events.append(dict(ev="step", op=a["op"], k=(a["a"][0] if a["op"] == "scale" else 1), dim=rk0, samedim=(rk0 == rk1),
                               vol0=int(round(vol0 * S / 100)), vol1=int(round(vol * S / 100)), w0=int(round(wid0 * S / 100)), w1=int(round(wid * S / 100)),
                               meta=dict(flat_before=bool(np.linalg.matrix_rank(Q - Q[0]) < d), **where0)))
    except Exception as exn:
        bad.append(("C18.no-error", dict(exc=type(exn).__name__, **where0), None, repr(exn)[:200]))
    return bad, events


def few_points(ctx):
    """segments and triangles in 3-5-D (fewer points than dimensions): volume within the affine span, and mean width
    of a segment = length x E|u_1| (checked through homogeneity: twice the segment, twice the width)"""
    dreye = import_dreye()
    res = tlc.run("mc/MC_C18F", cfg="mc/MC_C18F.cfg", dump=True)
    ctx.add_tlc(res)
    sts = [s for s in tlc.states_parallel(res, "out") if "kind" in s]
    tlc.cleanup(res)
    n = 0
    for st in sts:
        P = np.array(st["P"], float)
        w = dict(kind=st["kind"], d=st["d"], few_points=True, degenerate=st["sq"] == 0)
        want = st["sq"] ** 0.5 if st["kind"] == "segment" else st["sq"] ** 0.5 / 2
        n += 1
        try:
            v = float(dreye.compute_volume(P.copy()))
            if abs(v - want) > 1e-7 * (1 + want):
                ctx.violation("C18.volume-value", w, dict(P=st["P"]), want, v)
            w1 = float(dreye.compute_mean_width(P.copy(), n=300, seed=4))
            w2 = float(dreye.compute_mean_width(P * 2.0 + 7.0, n=300, seed=4))
            if abs(w2 - 2 * w1) > 1e-9 * (1 + w1):
                ctx.violation("C18.width-homogeneous", w, dict(P=st["P"]), 2 * w1, w2)
        except Exception as ex:
            ctx.violation("C18.no-error", dict(exc=type(ex).__name__, **w), dict(P=st["P"]), None, repr(ex)[:200])
    ctx.count("few-point clouds (segments / triangles in 3-5-D)", n)
    ctx.evaluations += n


def gamut_and_jsd(seed):
    """gamut-metric relations and Jensen-Shannon measurements"""
    dreye = import_dreye()
    rng = random.Random(seed)
    bad, events = [], []
    # gamut metric on non-negative clouds (3 receptors -> 2-D chromatic plane)
    for _ in range(12):
        m = rng.randint(4, 8)
        X = np.array([[rng.randint(0, 6) for _ in range(3)] for _ in range(m)], float)
        X = X[X.sum(1) > 0]
        if len(np.unique(X / X.sum(1, keepdims=True), axis=0)) < 3:
            continue
        sup = np.vstack([X, np.eye(3) * 5])
        for metric in ("width", "volume"):
            w = dict(metric=metric)
            try:
                g = dreye.compute_gamut(X.copy(), metric=metric, seed=3)
                gs = dreye.compute_gamut(X.copy() * 7.5, metric=metric, seed=3)
                rowscaled = X * np.array([rng.choice([0.5, 2.0, 3.0]) for _ in range(len(X))])[:, None]
                gr = dreye.compute_gamut(rowscaled, metric=metric, seed=3)
                if abs(g - gs) > 1e-9 * (1 + abs(g)) or abs(g - gr) > 1e-9 * (1 + abs(g)):
                    bad.append(("C18.gamut-scale-invariant", w, float(g), [float(gs), float(gr)]))
                self_rel = dreye.compute_gamut(X.copy(), relative_to=X.copy(), metric=metric, seed=3)
                if abs(self_rel - 1) > 1e-9:
                    bad.append(("C18.gamut-self", w, 1.0, float(self_rel)))
                sup_rel = dreye.compute_gamut(X.copy(), relative_to=sup.copy(), metric=metric, seed=3)
                if sup_rel > 1 + 1e-9 or sup_rel <= 0:
                    bad.append(("C18.gamut-superset", w, "<=1", float(sup_rel)))
                # a flat subset (two chromaticities: a segment) relative to its full-dimensional superset
                # a dark (all-zero) row has no chromaticity: it must not matter in the cloud nor in the reference
                X0 = np.vstack([X[:2], np.zeros((1, 3)), X[2:]])
                sup0 = np.vstack([np.zeros((1, 3)), sup])
                self0 = dreye.compute_gamut(X0.copy(), relative_to=X0.copy(), metric=metric, seed=3)
                if abs(self0 - 1) > 1e-9:
                    bad.append(("C18.gamut-self", dict(dark_row=True, **w), 1.0, float(self0)))
                sup_rel0 = dreye.compute_gamut(X.copy(), relative_to=sup0.copy(), metric=metric, seed=3)
                if abs(sup_rel0 - sup_rel) > 1e-9 * (1 + abs(sup_rel)):
                    bad.append(("C18.gamut-superset", dict(dark_row_in_reference=True, **w), float(sup_rel), float(sup_rel0)))
                for supset in (sup, X):
                    flat_rel = dreye.compute_gamut(X[:2].copy(), relative_to=supset.copy(), metric=metric, seed=3)
                    if flat_rel > 1 + 1e-9 or flat_rel < 0:
                        bad.append(("C18.gamut-superset", dict(flat_subset=True, **w), "<=1", float(flat_rel)))
            except Exception as ex:
                bad.append(("C18.no-error", dict(exc=type(ex).__name__, op="compute_gamut", **w), None, repr(ex)[:200]))
    # estimator fractional gamut in absolute capture
    try:
        from .. import dsys
        for A in ([[2, 1], [1, 3]], [[3, 1, 0], [0, 1, 2]], [[3, 1, 0], [1, 2, 1], [0, 1, 3]]):
            sysd = dict(A=A, D=4, lb=[0] * len(A[0]), ub=[4] * len(A[0]), kk="none", Kn=np.eye(len(A)).astype(int).tolist(), DK=1, bk="none", bl=[0] * len(A))
            for kk, Kn, DK, bk, bl in (("none", np.eye(len(A)).astype(int).tolist(), 1, "none", [0] * len(A)),
                                       ("vector", np.diag(range(1, len(A) + 1)).tolist(), 2, "vector", list(range(1, len(A) + 1)))):
                sysd = dict(A=A, D=4, lb=[0] * len(A[0]), ub=[4] * len(A[0]), kk=kk, Kn=Kn, DK=DK, bk=bk, bl=bl)
                est = dsys.make_estimator(dreye, sysd)
                for metric in ("width", "volume"):
                    g0 = est.compute_gamut(relative=False, metric=metric, seed=2)
                    est.compute_gamut(metric=metric, seed=2)            # a relative query in between
                    g = est.compute_gamut(relative=False, metric=metric, seed=2)
                    if not (0 < g <= 1 + 1e-9) or not (0 < g0 <= 1 + 1e-9):
                        bad.append(("C18.estimator-gamut-range", dict(metric=metric, nrec=len(A), kk=kk), "(0,1]", [float(g0), float(g)]))
                    if abs(g - g0) > 1e-12:
                        bad.append(("C18.estimator-gamut-range", dict(metric=metric, nrec=len(A), kk=kk, kind="changed-by-a-query"), float(g0), float(g)))
            # the estimator's gamut is the gamut metric of its achievable set {A x : lb <= x <= ub}: with positive lower
            # bounds too (corner cloud enumerated here), relative to the captures of ideal (single-wavelength) lights
            import itertools
            if len(A) >= 3:
                for lbq in ([0] * len(A[0]), [1] * len(A[0]), [2] + [0] * (len(A[0]) - 1)):
                    sysl = dict(A=A, D=4, lb=lbq, ub=[4] * len(A[0]), kk="none", Kn=np.eye(len(A)).astype(int).tolist(), DK=1, bk="none", bl=[0] * len(A))
                    est = dsys.make_estimator(dreye, sysl)
                    corners = np.array(list(itertools.product(*[(l / 4, 1.0) for l in lbq]))) @ np.array(A, float).T
                    ideal = np.asarray(est.capture(np.eye(est.filters.shape[1])), float)
                    for metric in ("width", "volume"):
                        for frac in (True, False):
                            g = est.compute_gamut(relative=False, metric=metric, seed=2, fraction=frac)
                            want = dreye.compute_gamut(corners, relative_to=(ideal if frac else None), center_to_neutral=False, center=True, metric=metric, seed=2)
                            if abs(g - want) > 1e-9 * (1 + abs(want)):
                                bad.append(("C18.estimator-gamut-definition", dict(metric=metric, nrec=len(A), fraction=frac, lbpos=any(lbq)), float(want), float(g)))
    except Exception as ex:
        bad.append(("C18.no-error", dict(exc=type(ex).__name__, op="estimator.compute_gamut"), None, repr(ex)[:200]))
    # Jensen-Shannon
    SJ = 100000
    for _ in range(60):
        n = rng.randint(2, 6)
        kind = rng.choice(["generic", "proportional", "disjoint", "zeros"])
        P = [rng.randint(0, 5) for _ in range(n)]
        if sum(P) == 0:
            P[0] = 1
        if kind == "proportional":
            Q = [3 * v for v in P]
        elif kind == "disjoint":
            P = [v if i % 2 == 0 else 0 for i, v in enumerate(P)]
            P[0] = max(P[0], 1)
            Q = [0 if i % 2 == 0 else rng.randint(1, 4) for i in range(n)]
            if sum(Q) == 0:
                continue
        else:
            Q = [rng.randint(0, 5) for _ in range(n)]
            if sum(Q) == 0:
                Q[-1] = 2
        try:
            v = dreye.compute_jensen_shannon_divergence(np.array(P, float), np.array(Q, float))
            vs = dreye.compute_jensen_shannon_divergence(np.array(Q, float), np.array(P, float))
            vn = dreye.compute_jensen_shannon_divergence(np.array(P, float) * 0.37, np.array(Q, float) * 12.0)
            sim = dreye.compute_jensen_shannon_similarity(np.array(P, float), np.array(Q, float))
            if abs(sim - (1 - v)) > 1e-12:
                bad.append(("C18.jsd-similarity", dict(kind=kind), 1 - v, float(sim)))
            # the same distributions in a tiny absolute unit (spectra in W/m^2/nm): normalisation is exact at every scale
            vt = dreye.compute_jensen_shannon_divergence(np.array(P, float) * 2.0 ** -40, np.array(Q, float) * 12.0)
            vt2 = dreye.compute_jensen_shannon_divergence(np.array(P, float), np.array(Q, float) * 2.0 ** -50)
            if abs(vt - v) > 1e-9 or abs(vt2 - v) > 1e-9:
                bad.append(("C18.jsd-value", dict(kind=kind, representation="tiny absolute unit"), float(v), [float(vt), float(vt2)]))
            events.append(dict(ev="jsd", P=P, Q=Q, S=SJ, v=int(round(v * SJ)), vs=int(round(vs * SJ)), vn=int(round(vn * SJ)), meta=dict(kind=kind, jsd=True)))
        except Exception as ex:
            bad.append(("C18.no-error", dict(exc=type(ex).__name__, op="jsd", kind=kind), None, repr(ex)[:200]))
    return bad, events


def run(ctx):
    thorough = ctx.tier == "thorough"
    res = tlc.run("mc/MC_C18", cfg="mc/MC_C18_%s.cfg" % ("thorough" if thorough else "quick"), dump=True, timeout=3400)
    ctx.add_tlc(res)
    from ..tlaval import parse_dump
    sts = list(parse_dump(res.dump))
    tlc.cleanup(res)
    sts = [s for s in sts if "hist" in s]
    if not sts:
        raise MachineryFailure("no states")
    parts = pmap(replay_state, sts, chunksize=8)
    events = []
    for st, (bad, ev) in zip(sts, parts):
        for clause, where, exp, obs in bad:
            ctx.violation(clause, where, dict(base=st["meta"]["name"], hist=st["hist"]), exp, obs)
        events += ev
        ctx.evaluations += 1
        if st["hist"]:
            ctx.nontrivial.add(repr((st["meta"]["name"], st["hist"])))
        ctx.count("base:" + st["meta"]["name"])
    few_points(ctx)
    gbad, gev = gamut_and_jsd(ctx.seed)
    for clause, where, exp, obs in gbad:
        ctx.violation(clause, where, dict(), exp, obs)
    events += gev
    trace = []
    for i, e in enumerate(events):
        t = {k: v for k, v in e.items() if k != "meta"}
        t["i"] = i + 1
        trace.append(t)
    tres, badl, path = tlc.validate_trace("Trace_C18", trace, "C18")
    ctx.add_tlc(tres)
    ctx.traces += len(trace)
    for _, idx, clause in badl:
        e = events[idx - 1]
        ctx.violation(clause, e["meta"], {k: v for k, v in e.items() if k != "meta"}, None, None)
    ctx.count("trace-steps", sum(1 for e in events if e["ev"] == "step"))
    ctx.count("trace-jsd", sum(1 for e in events if e["ev"] == "jsd"))
    ctx.sample({k: v for k, v in events[0].items() if k != "meta"})
    ctx.sample(dict(base=sts[-1]["meta"]["name"], hist=sts[-1]["hist"], exact=sts[-1]["exact"]))
    ctx.assumptions += ["mean width: Monte-Carlo, exact zonotope value within 1.2 % for n=60000 projections; rotation invariance within 2.5 % for n=4000",
                        "the value of the Jensen-Shannon divergence for generic pairs is not decided (DESIGN L2): class, symmetry, normalisation invariance, range"]
    return ctx.finish(rule=RULE, exhaustive=True)


def replay(ctx, rep):
    """No case-level replay for this property (the failing case depends on recorded / random executions or on the
    spec's answers): re-run the whole quick check against the current tree; exit 0 iff nothing is violated any more."""
    print("replaying by re-running the check; recorded case:", str(rep.get("case"))[:300])
    return run(ctx)
