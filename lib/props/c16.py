"""C16 — barycentric and n-sphere coordinate transforms are exact mutual inverses."""
import numpy as np

from .. import tlc
from ..common import MachineryFailure, import_dreye, pmap

RULE = ("n-sphere: complete sign / zero-pattern lattices ({-2..2}^d for d<=4, {-1,0,1}^d for d=5(..7), axes / origin / "
        "zero-tail families up to d=12), each with exact radius^2 and, per angle, defined?/cos^2/sign/half-plane "
        "(TLC checks the decomposition law); replayed into cartesian_to_spherical and back.  barycentric: for n=2..12 "
        "pairs of lattice weight vectors with the exact squared image distance derived from the unit-edge Gram data "
        "(TLC checks unit edges and scale freedom); replayed into barycentric_to_cartesian / cartesian_to_barycentric / "
        "barycentric_dim_reduction (centred and un-centred).  non-trivial = point with a zero or negative coordinate / "
        "pair of distinct points; distinct = point / pair")


def fr(r):
    return r[0] / r[1]


def replay_state(st):
    dreye = import_dreye()
    from dreye.api.barycentric import barycentric_dim_reduction
    bad = []
    if st["kind"] == "sph":
        pts = sorted(st["pts"], key=lambda p: p["x"])
        X = np.array([p["x"] for p in pts], float)
        d = X.shape[1]
        where0 = dict(kind="sph", d=d, fam=st["fam"])
        try:
            Y = dreye.cartesian_to_spherical(X.copy())
            Z = dreye.spherical_to_cartesian(Y.copy())
        except Exception as ex:
            return [("C16.no-error", dict(exc=type(ex).__name__, **where0), None, repr(ex)[:200], None)]
        if Y.shape != X.shape or not np.all(np.isfinite(Y)):
            return [("C16.sphere-values", dict(what="shape/finite", **where0), None, None, None)]
        for k, p in enumerate(pts):
            s = p["s"]
            w = dict(zero_tail=any(not a["defined"] for a in s["angles"]), origin=s["r2"] == 0, **where0)
            if abs(Y[k, 0] ** 2 - s["r2"]) > 1e-9 * max(1, s["r2"]) or Y[k, 0] < 0:
                bad.append(("C16.sphere-values", dict(what="radius", **w), s["r2"] ** 0.5, float(Y[k, 0]), p))
            for i, a in enumerate(s["angles"]):
                ang = Y[k, i + 1]
                last = i == d - 2
                hi = 2 * np.pi if last else np.pi
                if ang < 0 or ang > hi + 1e-12:
                    bad.append(("C16.sphere-values", dict(what="angle-range", last=last, **w), [0, hi], float(ang), p))
                if a["defined"]:
                    c = np.cos(ang)
                    if abs(c * c - fr(a["cos2"])) > 1e-9 or (a["sgn"] != 0 and fr(a["cos2"]) > 1e-12 and np.sign(c) != a["sgn"]):
                        bad.append(("C16.sphere-values", dict(what="cos2/sign", last=last, **w), [fr(a["cos2"]), a["sgn"]], float(ang), p))
                    if last and fr(a["cos2"]) < 1 - 1e-12 and ((ang <= np.pi) != a["upper"]):
                        bad.append(("C16.sphere-values", dict(what="half-plane", **w), a["upper"], float(ang), p))
            if np.max(np.abs(Z[k] - X[k])) > 1e-9 * max(1.0, s["r2"] ** 0.5):
                bad.append(("C16.sphere-roundtrip", w, X[k].tolist(), Z[k].tolist(), p))
        # other layouts of the same points (documented shape (..., ndim)): a single point as a 1-D vector and a stack
        # of tables must convert exactly like the rows of the table
        try:
            m = len(X) - len(X) % 2
            layouts = [("1-D point", X[0], Y[0]), ("1-D point", X[-1], Y[-1])]
            if m >= 2:
                layouts.append(("stack (2, m, d)", X[:m].reshape(2, m // 2, d), Y[:m].reshape(2, m // 2, d)))
                layouts.append(("stack (m, 1, d)", X[:m].reshape(m, 1, d), Y[:m].reshape(m, 1, d)))
            for lname, Xl, Yl in layouts:
                Yg = np.asarray(dreye.cartesian_to_spherical(Xl.copy()), float)
                if Yg.shape != Yl.shape or np.max(np.abs(Yg - Yl)) > 1e-12:
                    bad.append(("C16.sphere-values", dict(what="layout", layout=lname, **where0), Yl.tolist(), Yg.tolist() if Yg.shape == Yl.shape else list(Yg.shape), None))
                Zg = np.asarray(dreye.spherical_to_cartesian(Yl.copy()), float)
                if Zg.shape != Xl.shape or np.max(np.abs(Zg - Xl)) > 1e-9 * max(1.0, np.max(np.abs(Xl))):
                    bad.append(("C16.sphere-roundtrip", dict(layout=lname, **where0), Xl.tolist(), Zg.tolist() if Zg.shape == Xl.shape else list(Zg.shape), None))
        except Exception as ex:
            bad.append(("C16.no-error", dict(exc=type(ex).__name__, layout=True, **where0), None, repr(ex)[:200], None))
        # points whose trailing coordinates are at round-off level (built from angles that are exactly pi / 0 / pi/2 in
        # floating point: sin(pi) = 1.2e-16): angles must stay finite and in range, and the round trip must hold
        if d >= 3:
            try:
                rows = []
                for k in range(d - 1):
                    ang = np.full(d - 1, np.pi / 3)
                    ang[k] = np.pi
                    rows.append(np.concatenate([[2.0], ang]))
                    ang2 = np.full(d - 1, np.pi / 2)
                    ang2[k] = 0.0
                    rows.append(np.concatenate([[3.0], ang2]))
                rows.append(np.array([1.0] + [1e-10] * (d - 1)))
                Yn = np.array(rows[:-1])
                Xn = np.vstack([np.asarray(dreye.spherical_to_cartesian(Yn.copy()), float), rows[-1][None, :]])
                Y2 = np.asarray(dreye.cartesian_to_spherical(Xn.copy()), float)
                X2 = np.asarray(dreye.spherical_to_cartesian(Y2.copy()), float)
                hi = np.full(d, np.pi)
                hi[0], hi[-1] = np.inf, 2 * np.pi
                if not np.all(np.isfinite(Y2)) or np.any(Y2 < 0) or np.any(Y2 > hi + 1e-12):
                    bad.append(("C16.sphere-values", dict(what="finite / range at round-off level", **where0), None, Y2.tolist(), None))
                elif np.max(np.abs(X2 - Xn)) > 1e-7 * 3.0:
                    bad.append(("C16.sphere-roundtrip", dict(roundoff_level=True, **where0), Xn.tolist(), X2.tolist(), None))
            except Exception as ex:
                bad.append(("C16.no-error", dict(exc=type(ex).__name__, roundoff_level=True, **where0), None, repr(ex)[:200], None))
        return bad
    # barycentric
    n = st["n"]
    where0 = dict(kind="bary", n=n)
    try:
        E = np.eye(n)
        V = dreye.barycentric_to_cartesian(E)
        if V.shape != (n, n - 1):
            return [("C16.simplex", dict(what="shape", **where0), [n, n - 1], list(V.shape), None)]
        D = np.linalg.norm(V[:, None, :] - V[None, :, :], axis=-1)
        if np.max(np.abs(D[~np.eye(n, dtype=bool)] - 1)) > 1e-9:
            bad.append(("C16.simplex", dict(what="unit-edges", **where0), 1.0, D.tolist(), None))
        # the caller edits the matrix it was handed (plot units, centring): later conversions must not notice
        from dreye.api.barycentric import barycentric_to_cartesian_transformer
        T = barycentric_to_cartesian_transformer(n)
        T *= 100.0
        T -= 3.0
        pairs = st["pairs"]
        P = np.array([r["p"] for r in pairs], float)
        Q = np.array([r["q"] for r in pairs], float)
        for centred in (False, True, False, True):   # un-centred again after centred: nothing may be left behind
            yp = barycentric_dim_reduction(P.copy(), center=centred)
            yq = barycentric_dim_reduction(Q.copy(), center=centred)
            d2 = np.sum((yp - yq) ** 2, axis=1)
            exp = np.array([fr(r["d2"]) for r in pairs])
            if np.max(np.abs(d2 - exp)) > 1e-9:
                k = int(np.argmax(np.abs(d2 - exp)))
                bad.append(("C16.bary-affine", dict(centred=centred, **where0), float(exp[k]), float(d2[k]), pairs[k]))
            # scale invariance of the chromatic reduction
            if np.max(np.abs(barycentric_dim_reduction(P * 7.5, center=centred) - yp)) > 1e-9:
                bad.append(("C16.bary-scale", dict(centred=centred, **where0), None, None, None))
            # affinity: image of the normalised weights = weights @ V (un-centred) ; centred = minus centroid image
            Pn = P / P.sum(1, keepdims=True)
            want = Pn @ V - ((np.ones(n) / n) @ V if centred else 0)
            if np.max(np.abs(yp - want)) > 1e-9:
                bad.append(("C16.bary-affine", dict(centred=centred, what="affine", **where0), None, None, None))
            # inverse with L1
            L1 = P.sum(1)
            back = dreye.cartesian_to_barycentric(yp.copy(), L1=L1, centered=centred)
            if np.max(np.abs(back - P)) > 1e-9 * np.max(P) or np.max(np.abs(back.sum(1) - L1)) > 1e-9 * np.max(L1):
                bad.append(("C16.bary-inverse", dict(centred=centred, **where0), None, None, None))
            # the caller keeps its points: the same array object converted twice gives the same weights
            held = yp.copy()
            first = dreye.cartesian_to_barycentric(held, L1=L1, centered=centred)
            again = dreye.cartesian_to_barycentric(held, L1=L1, centered=centred)
            if not np.array_equal(held, yp) or np.max(np.abs(np.asarray(again) - np.asarray(first))) > 1e-12 * np.max(P):
                bad.append(("C16.bary-inverse", dict(centred=centred, what="same array converted twice", **where0), None, None, None))
            back1 = dreye.cartesian_to_barycentric(yp.copy(), centered=centred)
            if np.max(np.abs(back1.sum(1) - 1)) > 1e-9 or np.max(np.abs(back1 - Pn)) > 1e-9:
                bad.append(("C16.bary-inverse", dict(centred=centred, what="L1=None", **where0), None, None, None))
    except Exception as ex:
        bad.append(("C16.no-error", dict(exc=type(ex).__name__, **where0), None, repr(ex)[:200], None))
    return bad


def run(ctx):
    thorough = ctx.tier == "thorough"
    res = tlc.run("mc/MC_C16", cfg="mc/MC_C16_%s.cfg" % ("thorough" if thorough else "quick"), dump=True, timeout=1800)
    ctx.add_tlc(res)
    sts = [s for s in tlc.states_parallel(res, "out") if "kind" in s]
    tlc.cleanup(res)
    if not sts:
        raise MachineryFailure("no states")
    parts = pmap(replay_state, sts, chunksize=1)
    for st, bad in zip(sts, parts):
        for clause, where, exp, obs, case in bad:
            ctx.violation(clause, where, dict(state_kind=st["kind"], case=case, d=st.get("d"), n=st.get("n")), exp, obs)
        if st["kind"] == "sph":
            for p in st["pts"]:
                ctx.evaluations += 1
                zt = any(not a["defined"] for a in p["s"]["angles"])
                ctx.count("sphere d=%d%s" % (st["d"], " zero-tail" if zt else ""))
                if any(v <= 0 for v in p["x"]):
                    ctx.nontrivial.add(("s", tuple(p["x"])))
        else:
            for r in st["pairs"]:
                ctx.evaluations += 1
                ctx.count("bary n=%d" % st["n"])
                if r["p"] != r["q"]:
                    ctx.nontrivial.add(("b", tuple(r["p"]), tuple(r["q"])))
    ctx.traces += len(sts)
    ctx.sample([s for s in sts if s["kind"] == "sph"][0]["pts"][:2])
    ctx.sample([s for s in sts if s["kind"] == "bary"][0]["pairs"][:2])
    ctx.assumptions += ["generic (non-lattice) angles are covered only through the round trip (DESIGN L2)"]
    return ctx.finish(rule=RULE, exhaustive=True)


def replay(ctx, rep):
    """No case-level replay for this property (the failing case depends on recorded / random executions or on the
    spec's answers): re-run the whole quick check against the current tree; exit 0 iff nothing is violated any more."""
    print("replaying by re-running the check; recorded case:", str(rep.get("case"))[:300])
    return run(ctx)
