"""C20 — irradiance <-> photon-flux conversion is the physical law and its exact inverse."""
import random
from fractions import Fraction

import numpy as np

from .. import tlc
from ..common import MachineryFailure, import_dreye, pmap

RULE = ("cases = states of MC_C20: shape class (scalar, 1-D, 2-D with wavelength axis 0/1, 2-D broadcast) x unit mode "
        "(plain, pint I, pint uW/cm^2/nm, wavelengths in um) x SI prefix x wavelength grid x spectrum lattice, each "
        "with the exact coefficient m*10^e/HCN per element (TLC checks linearity, inverse, prefix and unit laws on "
        "the coefficients); replayed into irr2flux and flux2irr (relative 1e-12), plus call histories in different "
        "orders (the unit registry is application-wide state).  non-trivial = non-zero spectrum; distinct = case")

# exact SI values (2019 redefinition)
H = Fraction(662607015, 10 ** 42)
C = Fraction(299792458)
NA = Fraction(602214076, 10 ** -15) if False else Fraction(602214076 * 10 ** 15)
HCN = H * C * NA
PREFIX = {0: None, 1: "milli", 2: "micro", 3: "nano"}


def val(v):
    return float(Fraction(v["m"]) * Fraction(10) ** v["e"] * HCN ** v["k"])


def build(case):
    """-> (irr array/quantity, wavelengths, axis, expected flux array)"""
    import dreye
    ureg = dreye.ureg
    sh, um = case["shape"], case["units"]
    lam = np.array(case["lam"], float)
    rows = np.array(case["rows"], float)
    exp = np.array([[val(v) for v in r] for r in case["flux"]])
    axis = None
    if sh == "s":
        irr, lamv, exp = float(rows[0, 0]), float(lam[0]), exp[0, 0]
    elif sh == "v":
        irr, lamv, exp = rows[0], lam, exp[0]
    elif sh == "m1":
        irr, lamv, axis = rows, lam, 1
    elif sh == "m0":
        irr, lamv, exp, axis = rows.T.copy(), lam, exp.T, 0
    elif sh in ("c0", "c1", "c2"):
        k = int(sh[1])
        cube = np.stack([rows, rows[::-1]])            # (2 planes, 2 rows, n wavelengths)
        ecube = np.stack([exp, exp[::-1]])
        irr, lamv, exp, axis = np.moveaxis(cube, -1, k).copy(), lam, np.moveaxis(ecube, -1, k), k
    elif sh in ("q0", "q1"):
        # coincident extents: as many spectra as wavelengths, so that another axis has the length of the wavelength axis
        n = len(lam)
        mult = np.arange(1, n + 1, dtype=float)[:, None]
        rowsq = np.vstack([rows[i % len(rows)] for i in range(n)]) * mult          # (n spectra, n wavelengths)
        expq = np.vstack([exp[i % len(exp)] for i in range(n)]) * mult
        if sh == "q0":
            irr, lamv, exp, axis = rowsq.T.copy(), lam, expq.T, 0
        else:
            cube, ecube = np.stack([rowsq, rowsq[::-1]]), np.stack([expq, expq[::-1]])
            irr, lamv, exp, axis = np.moveaxis(cube, -1, 1).copy(), lam, np.moveaxis(ecube, -1, 1), 1
    else:
        irr, lamv = rows, lam
    if um == "pint-I":
        irr = irr * ureg("I")
    elif um == "pint-uWcm2":
        irr = irr * ureg("uW/cm^2/nm")
    elif um == "pint-um":
        lamv = (np.asarray(lamv) / 1000.0) * ureg("um")
    return irr, lamv, axis, np.asarray(exp, float)


def replay_case(case):
    dreye = import_dreye()
    bad = []
    where0 = dict(shape=case["shape"], units=case["units"], prefix=PREFIX[case["p"]])
    try:
        irr, lamv, axis, exp = build(case)
        kw = dict(prefix=PREFIX[case["p"]])
        if axis is not None:
            kw["axis"] = axis
        f = dreye.irr2flux(irr, lamv, **kw)
        if axis is not None and not dreye.has_units(irr):
            # a plain spectrum with return_units=True: the same numbers, as a quantity
            fu = dreye.irr2flux(irr, lamv, return_units=True, **kw)
            if not dreye.has_units(fu) or np.max(np.abs(np.asarray(fu.magnitude, float) - exp)) > 1e-12 * np.max(np.abs(exp)) + 1e-300:
                bad.append(("C20.units-returned", dict(return_units=True, **where0), True, dreye.has_units(fu)))
        if dreye.has_units(irr):
            # a unit-carrying spectrum with return_units=False given explicitly: the same numbers, as a plain array
            fp = dreye.irr2flux(irr, lamv, return_units=False, **kw)
            if dreye.has_units(fp) or np.shape(fp) != exp.shape or np.max(np.abs(np.asarray(fp, float) - exp)) > 1e-12 * np.max(np.abs(exp)) + 1e-300:
                bad.append(("C20.law", dict(return_units=False, **where0), exp.tolist(), np.asarray(getattr(fp, "magnitude", fp), float).tolist()))
            # the same quantity built with pint's module-level constructor (as unpickling or another library would)
            import pint
            irr2 = pint.Quantity(np.asarray(irr.magnitude, float), str(irr.units))
            f2 = dreye.irr2flux(irr2, lamv, **kw)
            f2m = np.asarray(f2.magnitude if dreye.has_units(f2) else f2, float)
            if f2m.shape != exp.shape or np.max(np.abs(f2m - exp)) > 1e-12 * np.max(np.abs(exp)) + 1e-300:
                bad.append(("C20.law", dict(constructor="pint.Quantity", **where0), exp.tolist(), f2m.tolist()))
        hasu = case["units"] in ("pint-I", "pint-uWcm2")
        if hasu != dreye.has_units(f):
            bad.append(("C20.units-returned", where0, hasu, dreye.has_units(f)))
        fm = np.asarray(f.magnitude if dreye.has_units(f) else f, float)
        if fm.shape != exp.shape or np.max(np.abs(fm - exp)) > 1e-12 * np.max(np.abs(exp)) + 1e-300:
            bad.append(("C20.law", where0, exp.tolist(), fm.tolist()))
        # inverse: flux (in prefixed units) -> irradiance in W/m^2/nm
        flux_units = "%sE" % (PREFIX[case["p"]] or "")
        kw2 = dict(flux_units=flux_units)
        if axis is not None:
            kw2["axis"] = axis
        lam_plain = lamv if not dreye.has_units(lamv) else lamv
        back = dreye.flux2irr(fm, lam_plain, **kw2)
        bm = np.asarray(back.magnitude if dreye.has_units(back) else back, float)
        irr_si = np.asarray(irr.magnitude if dreye.has_units(irr) else irr, float) * (10.0 ** case["ue"])
        if bm.shape != np.shape(irr_si) or np.max(np.abs(bm - irr_si)) > 1e-12 * (np.max(np.abs(irr_si)) + 1e-300) + 1e-300:
            bad.append(("C20.inverse", where0, np.asarray(irr_si).tolist(), bm.tolist()))
        # inverse with an SI prefix on the irradiance: plain flux in E (no prefix) -> {prefix}spectralirradiance
        if case["p"]:
            flux_plain = fm * 10.0 ** (-3 * case["p"])
            kw3 = dict(prefix=PREFIX[case["p"]])
            if axis is not None:
                kw3["axis"] = axis
            back2 = dreye.flux2irr(flux_plain, lam_plain, **kw3)
            b2 = np.asarray(back2.magnitude if dreye.has_units(back2) else back2, float)
            want2 = irr_si * 10.0 ** (3 * case["p"])
            if b2.shape != np.shape(want2) or np.max(np.abs(b2 - want2)) > 1e-11 * (np.max(np.abs(want2)) + 1e-300) + 1e-300:
                bad.append(("C20.inverse", dict(out_prefix=True, **where0), np.asarray(want2).tolist(), b2.tolist()))
    except Exception as ex:
        bad.append(("C20.no-error", dict(exc=type(ex).__name__, **where0), None, repr(ex)[:200]))
    return bad


def _chunk(cs):
    return [replay_case(c) for c in cs]


def history_check(cases, rng):
    """the registry is application-wide: a sequence of conversions must not change a later one"""
    dreye = import_dreye()
    bad = []
    pick = [c for c in cases if c["shape"] in ("v", "mb")]
    for _ in range(60):
        hist = [rng.choice(pick) for _ in range(rng.randint(3, 5))]
        def run(seq):
            out = []
            for c in seq:
                irr, lamv, axis, exp = build(c)
                f = dreye.irr2flux(irr, lamv, prefix=PREFIX[c["p"]])
                out.append(np.asarray(f.magnitude if dreye.has_units(f) else f, float))
            return out
        a = run(hist)
        b = run(hist[::-1])[::-1]
        if any(not np.array_equal(x, y) for x, y in zip(a, b)):
            bad.append(("C20.history-independent", dict(n=len(hist)), None, None, [dict(shape=c["shape"], units=c["units"], p=c["p"]) for c in hist]))
    # wavelength grids of the same length and the same end points but different interior samples, one after the other
    # in one process: the law is pointwise in the wavelength (flux / irradiance proportional to lambda), so for the same
    # spectrum the two answers are in the ratio of the two grids, whatever was converted before
    for n in (3, 9, 16):
        lamA = np.linspace(300.0, 700.0, n)
        lamB = lamA.copy()
        lamB[1:-1] += (rng.random() * 0.5 + 0.25) * (lamA[1] - lamA[0]) * np.sin(np.arange(1, n - 1) * 1.7)
        lamB = np.sort(lamB)
        spec = np.linspace(1.0, 2.0, n)
        for order in ((lamA, lamB), (lamB, lamA)):
            try:
                f = [np.asarray(getattr(x, "magnitude", x), float) for x in (dreye.irr2flux(spec.copy(), l.copy(), return_units=False) for l in order)]
                g = [np.asarray(getattr(x, "magnitude", x), float) for x in (dreye.flux2irr(spec.copy(), l.copy(), return_units=False) for l in order)]
            except Exception as ex:
                bad.append(("C20.no-error", dict(probe="grid-twins", exc=type(ex).__name__), None, repr(ex)[:200], []))
                continue
            if np.max(np.abs(f[1] / f[0] - order[1] / order[0])) > 1e-12:
                bad.append(("C20.history-independent", dict(probe="grid-twins", fn="irr2flux", n=n), (order[1] / order[0]).tolist(), (f[1] / f[0]).tolist(), []))
            if np.max(np.abs(g[1] / g[0] - order[0] / order[1])) > 1e-12:
                bad.append(("C20.history-independent", dict(probe="grid-twins", fn="flux2irr", n=n), (order[0] / order[1]).tolist(), (g[1] / g[0]).tolist(), []))
    return bad


def run(ctx):
    thorough = ctx.tier == "thorough"
    res = tlc.run("mc/MC_C20", cfg="mc/MC_C20_%s.cfg" % ("thorough" if thorough else "quick"), dump=True, timeout=1800)
    ctx.add_tlc(res)
    cases = [s for s in tlc.states_parallel(res, "out") if "flux" in s]
    tlc.cleanup(res)
    if not cases:
        raise MachineryFailure("no cases")
    # harness-level layouts of the same abstract cases: square / cubic arrays in which another axis has the same
    # length as the wavelength axis
    cases += [dict(c, shape="q0") for c in cases if c["shape"] == "m0"] + [dict(c, shape="q1") for c in cases if c["shape"] == "c1"]
    parts = pmap(_chunk, [cases[i:i + 100] for i in range(0, len(cases), 100)], chunksize=1)
    flat = [b for p in parts for b in p]
    for c, bad in zip(cases, flat):
        for clause, where, exp, obs in bad:
            ctx.violation(clause, where, c, exp, obs)
        ctx.evaluations += 1
        ctx.count("shape:%s units:%s" % (c["shape"], c["units"]))
        if any(v != 0 for r in c["rows"] for v in r):
            ctx.nontrivial.add(repr((c["shape"], c["units"], c["p"], c["lam"], c["rows"])))
    for clause, where, exp, obs, h in history_check(cases, random.Random(ctx.seed)):
        ctx.violation(clause, where, dict(history=h), exp, obs)
    ctx.traces += len(cases) + 60
    for c in cases[:2]:
        ctx.sample(c)
    ctx.extra["HCN_SI"] = float(HCN)
    ctx.assumptions += ["h, c, N_A substituted with their exact SI values by the harness; TLC decides only the coefficient algebra",
                        ]
    return ctx.finish(rule=RULE, exhaustive=True)


def replay(ctx, rep):
    bad = replay_case(rep["case"])
    for b in bad:
        print("still failing:", b[0], b[1])
    return 1 if bad else 0
