"""C11 — layer decomposition honours every constraint and never worsens its fit."""
import itertools
import warnings

import numpy as np

from .. import tlc, dsys
from ..common import MachineryFailure, import_dreye, pmap

RULE = ("Decomp.tla (loop state machine) model-checked with and without subsampling (event order, iteration bound, "
        "stop reasons, descent, FinalX / FinalP placement, termination); fit_decomposition is run over systems x "
        "1-3 layers x all 0/1 masks with >= 1 source per layer x equal-L1 on/off x subsample on/off x opacity bounds x "
        "seeds with hooks on: constraints, prediction identity and same-seed determinism are checked on the results "
        "and the hook events are validated by Trace_C11 under TLC (behaviour of Decomp.tla, non-increasing logged "
        "losses, stop reasons consistent with the logged numbers); pinned-factor configurations (MC_C11P) are compared "
        "with their exact optimum; the factor fitted last is probed for local optimality.  non-trivial = run with >= 2 "
        "alternating iterations; distinct = configuration")

SYSTEMS = {
    "s34": dict(A=[[3., 1, 0, 1], [1, 2, 1, 0], [0, 1, 3, 2]], lb=[0., 0, 0, 0], ub=[1., 1, 1, 1]),
    "s23": dict(A=[[3., 1, 0], [0, 1, 2]], lb=[0., 0, 0], ub=[1., 2, 1]),
}
LOSS_SCALE = 1000000


def masks(n_layers, n_src, limit, rng):
    allm = [m for m in itertools.product(itertools.product([0, 1], repeat=n_src), repeat=n_layers)
            if all(sum(r) >= 1 for r in m)]
    rng.shuffle(allm)
    return [None] + allm[:limit]


def run_config(cfg):
    import_dreye()
    from dreye.api import _verif
    from dreye.api.optimize.lsq_linear import lsq_linear_decomposition
    name, n_layers, mask, eq, subsample, lbp, ubp, seed, max_iter, K, bl = cfg[:11]
    extra = cfg[11] if len(cfg) > 11 else {}
    u = extra.get("unit", 1.0)          # intensity unit (power of two): bounds * u, capture matrix / u
    sd = SYSTEMS[name]
    A, lb, ub = np.array(sd["A"]) / u, np.array(sd["lb"]) * u, np.array(sd["ub"]) * u
    d, m = A.shape
    rng = np.random.default_rng(seed + 17)
    nS = 10
    Xt = rng.uniform(0.1, 0.9, (n_layers, m)) * (np.array(mask) if mask is not None else 1.0) * u
    if extra.get("perlayer"):
        # opacity bounds given per layer (array-valued, documented through broadcasting): layers are NOT exchangeable
        ubp = np.array([0.3, 1.0, 0.6][:n_layers])
        lbp = np.zeros(n_layers)
    Pt = rng.uniform(lbp, ubp, (nS, n_layers))
    Kv = None if K is None else np.array(K)
    blv = None if bl is None else np.array(bl)
    Aeff = A if Kv is None else A * Kv[:, None]
    bleff = 0 if blv is None else (blv if Kv is None else Kv * blv)
    # light-induced targets stay non-negative (the NMF initialisation requires it)
    B = np.maximum(Pt @ Xt @ Aeff.T + rng.normal(0, 0.02, (nS, d)), 0.0) + bleff
    where0 = dict(sys=name, n_layers=n_layers, masked=mask is not None, equal_l1=eq, subsample=bool(subsample), lbp=np.asarray(lbp).tolist(), ubp=np.asarray(ubp).tolist(),
                  K=K is not None, baseline=bl is not None, unit=("1" if u == 1 else "2^-10"), weighted=bool(extra.get("weighted")))
    bad, events = [], []
    kw = dict(n_layers=n_layers, mask=(None if mask is None else np.array(mask, float)), lb=lb, ub=ub, lbp=lbp, ubp=ubp,
              K=Kv, baseline=blv, max_iter=max_iter, seed=seed, subsample=subsample, equal_l1norm_constraint=eq, return_pred=True)
    Wm = np.ones((nS, d))
    if extra.get("weighted"):
        # per-sample weights: one sample far off the model with unequal receptor weights, all others with weight one
        B[nS - 1, 0] += 0.6
        Wm[nS - 1] = [4.0] + [1.0] * (d - 1)
        kw["W"] = Wm
    # the caller's arrays: the SAME objects are handed to both calls and must come back untouched
    owned = dict(A=A, B=B, lb=lb, ub=ub, W=Wm, **({} if mask is None else dict(mask=kw["mask"])))
    keep = {k: v.copy() for k, v in owned.items()}
    results = []
    for rep in range(2):
        del _verif.EVENTS[:]
        try:
            with warnings.catch_warnings():
                warnings.simplefilter("ignore")
                X, P, Bp = lsq_linear_decomposition(A, B, **kw)
        except Exception as ex:
            bad.append(("C11.no-error", dict(exc=type(ex).__name__, **where0), None, repr(ex)[:200]))
            return bad, events, 0
        for k, v in owned.items():
            if not np.array_equal(v, keep[k]):
                bad.append(("C11.caller-array-untouched", dict(array=k, call=rep, **where0), keep[k].tolist(), v.tolist()))
                v[...] = keep[k]
        results.append((np.asarray(X, float), np.asarray(P, float), np.asarray(Bp, float)))
        if rep == 0:
            hook = [dict(e) for e in _verif.EVENTS if e["ev"].startswith("Decomp")]
    (X, P, Bp), (X2, P2, Bp2) = results
    if not (np.array_equal(X, X2) and np.array_equal(P, P2) and np.array_equal(Bp, Bp2)):
        bad.append(("C11.same-seed-same-result", where0, None, float(np.max(np.abs(X - X2)))))
    tol = 2e-3    # SCS default accuracy
    if X.shape != (n_layers, m) or P.shape != (nS, n_layers):
        bad.append(("C11.shapes", where0, [(n_layers, m), (nS, n_layers)], [list(X.shape), list(P.shape)]))
        return bad, events, 0
    if np.any(X < lb - tol * u) or np.any(X > ub + tol * u):
        bad.append(("C11.intensity-bounds", where0, [lb.tolist(), ub.tolist()], X.tolist()))
    if mask is not None and np.any(np.array(mask) == 0) and np.max(np.abs(X[np.array(mask) == 0])) > tol * u:
        bad.append(("C11.mask", where0, 0.0, float(np.max(np.abs(X[np.array(mask) == 0])))))
    if eq and n_layers > 1 and np.ptp(X.sum(1)) > 2 * tol * m * u:
        bad.append(("C11.equal-l1", where0, 0.0, float(np.ptp(X.sum(1)))))
    if np.any(P < lbp - tol) or np.any(P > ubp + tol):
        bad.append(("C11.opacity-bounds", where0, [np.asarray(lbp).tolist(), np.asarray(ubp).tolist()], [P.min(0).tolist(), P.max(0).tolist()]))
    want = P @ X @ Aeff.T + bleff
    if np.max(np.abs(Bp - want)) > 1e-9 * (1 + np.max(np.abs(want))):
        bad.append(("C11.pred-identity", where0, None, float(np.max(np.abs(Bp - want)))))
    # the factor fitted last is (at least locally) optimal given the other: feasible probes must not be better
    T = B - bleff

    def loss_of(Pm, Xm):
        return np.linalg.norm(Wm * (Pm @ Xm @ Aeff.T - T))
    base = loss_of(P, X)
    prng = np.random.default_rng(seed + 5)
    if subsample:
        # the opacities are fitted last: row by row a bounded least-squares problem with a unique optimal value,
        # solved independently (scipy BVLS) from the returned intensities
        from scipy.optimize import lsq_linear as _bvls
        V = (X @ Aeff.T).T                      # d x layers
        worst = 0.0
        for srow in range(P.shape[0]):
            Vw, tw = V * Wm[srow][:, None], T[srow] * Wm[srow]
            ropt = _bvls(Vw, tw, bounds=(np.full(P.shape[1], lbp, float), np.full(P.shape[1], ubp, float) + (1e-12 if np.all(np.asarray(lbp) == np.asarray(ubp)) else 0)), method="bvls")
            mine = np.linalg.norm(Vw @ P[srow] - tw)
            worst = max(worst, mine - np.sqrt(2 * ropt.cost))
        if worst > 2e-3 * (1 + base):
            bad.append(("C11.last-factor-optimal", dict(factor="P", kind="row-optimum", **where0), 0.0, float(worst)))
        for _ in range(30):
            Pn = np.clip(P + prng.normal(0, 0.05, P.shape), lbp, ubp)
            if loss_of(Pn, X) < base - 5e-3 * (1 + base):
                bad.append(("C11.last-factor-optimal", dict(factor="P", **where0), float(base), float(loss_of(Pn, X))))
                break
    else:
        for _ in range(30):
            Xn = np.clip(X + prng.normal(0, 0.05, X.shape) * u, lb, ub)
            if mask is not None:
                Xn = Xn * np.array(mask)
            if eq and n_layers > 1:
                continue      # keeping equal row sums under random probing is not attempted
            if loss_of(P, Xn) < base - 5e-3 * (1 + base):
                bad.append(("C11.last-factor-optimal", dict(factor="X", **where0), float(base), float(loss_of(P, Xn))))
                break
    # ---- hook events -> trace
    init = [e for e in hook if e["ev"] == "DecompInit"]
    hooked = bool(init)
    mi = init[0]["max_iter"] if hooked else max_iter
    ftol = init[0]["ftol"] if hooked else 1e-8
    xtol = init[0]["xtol"] if hooked else 1e-8
    events.append(dict(ev="Call", max_iter=int(mi), subsample=bool(subsample), hooked=hooked, meta=where0))
    niter = 0
    pending_eval = False
    for e in hook:
        if e["ev"] == "DecompXStep":
            if pending_eval:
                events.append(dict(ev="Continue", meta=where0))
            events.append(dict(ev="XStep", n=e["n"], meta=where0))
            pending_eval = False
        elif e["ev"] == "DecompEval":
            niter += 1
            events.append(dict(ev="Eval", n=e["n"], loss=int(round(e["loss"] * LOSS_SCALE)), tol=int(2e-3 * LOSS_SCALE * (1 + e["loss"])), meta=where0,
                               raw=dict(loss=e["loss"], prev=e["prev_loss"], dvars=e["dvars"], nvars=e["nvars"])))
            last_eval = e
            pending_eval = True
        elif e["ev"] == "DecompStop":
            if e["reason"] == "ftol":
                cons = (last_eval["prev_loss"] - last_eval["loss"]) < ftol * last_eval["loss"]
            elif e["reason"] == "xtol":
                cons = last_eval["dvars"] < xtol * (xtol + last_eval["nvars"]) and not ((last_eval["prev_loss"] - last_eval["loss"]) < ftol * last_eval["loss"])
            else:
                cons = True
            events.append(dict(ev="Stop", n=e["n"], reason=e["reason"], consistent=bool(cons), meta=where0))
            pending_eval = False
        elif e["ev"] == "DecompFinalX":
            events.append(dict(ev="FinalX", meta=where0))
        elif e["ev"] == "DecompFinalP":
            events.append(dict(ev="FinalP", meta=where0))
    events.append(dict(ev="Return", meta=where0))
    return bad, events, niter


def pinned(case):
    """exact optimum of the pinned-factor configurations (MC_C11P)"""
    import_dreye()
    from dreye.api.optimize.lsq_linear import lsq_linear_decomposition
    s = case["sys"]
    A, lb, ub, K, bl = dsys.floats(s)
    S = s["D"] * s["DK"]
    B = np.array([dsys.b_float(s, case["b1"]), dsys.b_float(s, case["b2"])])
    Kf = None if K is None else np.atleast_1d(K)
    bad = []
    where0 = dict(pinned=True, **dsys.sys_where(s))
    try:
        with warnings.catch_warnings():
            warnings.simplefilter("ignore")
            # (a) opacities pinned to 1, one layer
            X, P, Bp = lsq_linear_decomposition(A, B.copy(), n_layers=1, lb=lb, ub=ub, lbp=1, ubp=1, K=Kf, baseline=bl, seed=0, max_iter=3, return_pred=True)
        q = (np.asarray(case["q"], float) / case["den"] + np.asarray(s["blN"], float)) / S
        if np.max(np.abs(np.asarray(Bp) - q)) > 2e-2:
            bad.append(("C11.last-factor-optimal", dict(factor="X", **where0), q.tolist(), np.asarray(Bp).tolist()))
        # (b) intensities pinned
        x = np.asarray(case["xpin"], float) / s["D"]
        with warnings.catch_warnings():
            warnings.simplefilter("ignore")
            X, P, Bp = lsq_linear_decomposition(A, B.copy(), n_layers=1, lb=x, ub=x, lbp=0, ubp=1, K=Kf, baseline=bl, seed=0, max_iter=3, return_pred=True)
        pw = np.array([case["p1"][0] / case["p1"][1], case["p2"][0] / case["p2"][1]])
        if np.max(np.abs(np.asarray(P).ravel() - pw)) > 2e-2:
            bad.append(("C11.last-factor-optimal", dict(factor="P", **where0), pw.tolist(), np.asarray(P).ravel().tolist()))
    except Exception as ex:
        bad.append(("C11.no-error", dict(exc=type(ex).__name__, **where0), None, repr(ex)[:200]))
    return bad


def run(ctx):
    import random
    thorough = ctx.tier == "thorough"
    for sub in ("TRUE", "FALSE"):
        r = tlc.run("mc/MC_C11", cfg="mc/MC_C11_%s.cfg" % sub, coverage=True)
        ctx.add_tlc(r)
        need = ["XStep", "Eval", "StopF", "StopX", "Continue", "MaxIterWarn", "FinalX", "Return"] + (["FinalP"] if sub == "TRUE" else [])
        for act in need:
            if r.coverage.get(act, (0, 0))[0] == 0:
                raise MachineryFailure("Decomp.tla action %s never taken" % act)
    rng = random.Random(ctx.seed)
    cfgs = []
    for name, sd in SYSTEMS.items():
        m = len(sd["A"][0])
        for n_layers in (1, 2, 3):
            for mask in masks(n_layers, m, 3 if not thorough else 8, rng):
                for eq in (True, False):
                    for subsample in (None, 0.6):
                        lbp, ubp = rng.choice([(0, 1), (0.2, 0.8)])
                        Kbl = rng.choice([(None, None), ([1.0, 0.5, 2.0][:len(sd["A"])], [0.1] * len(sd["A"]))])
                        cfgs.append((name, n_layers, mask, eq, subsample, lbp, ubp, rng.randint(0, 3), rng.choice([2, 4, 6] if thorough else [2, 3, 4]), Kbl[0], Kbl[1]))
    if not thorough:
        rng.shuffle(cfgs)
        cfgs = cfgs[:32]
    # the same kind of runs in a small intensity unit, and with per-sample weights under subsampling
    base = [c for c in cfgs]
    rng.shuffle(base)
    small = [c + (dict(unit=2.0 ** -10),) for c in base[: (24 if thorough else 8)]]
    wsub = [c[:4] + (0.6,) + c[5:] + (dict(weighted=True),) for c in base[-(40 if thorough else 12):]]
    perl = [c[:2] + (None,) + c[3:] + (dict(perlayer=True),) for c in base if c[1] >= 2][: (24 if thorough else 8)]
    cfgs = [c + ({},) for c in cfgs] + small + wsub + perl
    parts = pmap(run_config, cfgs, chunksize=1)
    events = []
    for cfg, (bad, ev, niter) in zip(cfgs, parts):
        for clause, where, exp, obs in bad:
            ctx.violation(clause, where, dict(config=[c if not isinstance(c, tuple) else list(c) for c in cfg]), exp, obs)
        events += ev
        ctx.evaluations += 1
        if niter >= 2:
            ctx.nontrivial.add(repr(cfg))
        ctx.count("runs:%s:layers=%d" % (cfg[0], cfg[1]))
    trace = []
    for i, e in enumerate(events):
        t = {k: v for k, v in e.items() if k not in ("meta", "raw")}
        t["i"] = i + 1
        trace.append(t)
    tres, badl, path = tlc.validate_trace("Trace_C11", trace, "C11")
    ctx.add_tlc(tres)
    ctx.traces += sum(1 for e in events if e["ev"] == "Call")
    for _, idx, clause in badl:
        e = events[idx - 1]
        ctx.violation(clause, e["meta"], {k: v for k, v in e.items() if k != "meta"}, None, None)
    ctx.extra["hook_events"] = len(events)
    ctx.extra["calls_with_hook_events"] = sum(1 for e in events if e["ev"] == "Call" and e["hooked"])
    ctx.extra["stop_reasons"] = {r: sum(1 for e in events if e["ev"] == "Stop" and e["reason"] == r) for r in ("ftol", "xtol", "max_iter")}
    # pinned-factor exact optima
    pres = tlc.run("mc/MC_C11P", cfg="mc/MC_C11P_quick.cfg", dump=True)
    ctx.add_tlc(pres)
    cases = [s for s in tlc.states_parallel(pres, "out") if "b1" in s]
    tlc.cleanup(pres)
    rng.shuffle(cases)
    cases = cases[: (200 if thorough else 24)]
    for bad in pmap(pinned, cases, chunksize=2):
        for clause, where, exp, obs in bad:
            ctx.violation(clause, where, dict(), exp, obs)
    ctx.evaluations += len(cases)
    ctx.count("pinned-factor cases", len(cases))
    for t in trace[:6]:
        ctx.sample(t)
    ctx.assumptions += ["SCS default accuracy: constraint tolerance 2e-3, loss descent tolerance 2e-3 relative; pinned-factor optima within 2e-2",
                        "optimality of the last factor for generic float factors is only probed (random feasible perturbations); exact only in the pinned configurations"]
    return ctx.finish(rule=RULE, exhaustive=False)


def replay(ctx, rep):
    """No case-level replay for this property (the failing case depends on recorded / random executions or on the
    spec's answers): re-run the whole quick check against the current tree; exit 0 iff nothing is violated any more."""
    print("replaying by re-running the check; recorded case:", str(rep.get("case"))[:300])
    return run(ctx)
