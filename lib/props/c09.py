"""C09 — variance minimisation keeps the fit quality and minimises capture variance."""
import numpy as np

from .. import tlc, dsys
from ..common import MachineryFailure, import_dreye, pmap, grouped

RULE = ("one TLC state per (lattice system, variance model); per grid target the exact stage-1 optimum q* and the exact "
        "stage-2 optimum of sum(eps x^2) over {x in box: Mx = q*} (KKT active-set QP; TLC: feasible, no polytope vertex "
        "better, not larger than the variance of the ordinary fit); replayed into ReceptorEstimator.minimize_variance "
        "with explicit / heteroscedastic / uncertainty-derived variance matrices and with an L1 request.  non-trivial "
        "= target whose stage-2 polytope has >= 2 vertices or that is out of gamut; distinct = (system, model, target)")

TOLX = 2e-2
L2EPS = 1e-4


def replay_state(st):
    dreye = import_dreye()
    s, ek = st["sys"], st["ek"]
    A, lb, ub, K, bl = dsys.floats(s)
    D, DK = s["D"], s["DK"]
    Kmat = np.asarray(s["Kn"], float) / DK
    blv = np.asarray(s["bl"], float) / D
    E = np.asarray(st["E"], float)
    where0 = dict(fam=st["fam"], ek=ek, **dsys.sys_where(s))
    bad = []
    recs = sorted(st["recs"], key=lambda r: r["b"])
    B = np.array([dsys.b_float(s, r["b"]) for r in recs])
    Eprop = (Kmat @ A) ** 2 if ek == "hetero" else (Kmat ** 2) @ E
    epsv = Eprop.sum(0)
    est = dsys.make_estimator(dreye, s)
    allrows = list(range(len(recs)))
    variants = [("explicit-arg", dict(Epsilon=("heteroscedastic" if ek == "hetero" else E.copy())), allrows)]
    if ek == "hetero":
        variants.append(("default", {}, allrows))     # registered default: no filters_uncertainty -> heteroscedastic
    # batch size is only a performance setting (C05) and the error budget is PER SAMPLE: in-gamut and out-of-gamut rows
    # alternate inside batches of 2 (an even number of rows, so no padding of the last batch: D42 is about padding)
    zr = [k for k, r in enumerate(recs) if r["zero"]]
    nz = [k for k, r in enumerate(recs) if not r["zero"]]
    mixed = [k for pair in zip(zr, nz) for k in pair][:8]
    if mixed:
        variants.append(("batch-of-2-mixed", dict(Epsilon=("heteroscedastic" if ek == "hetero" else E.copy()), batch_size=2), mixed))
    for vname, kw, rows in variants:
        w0 = dict(variant=vname, **where0)
        try:
            X, Bp, Bvar = est.minimize_variance(B[rows].copy(), l2_eps=L2EPS, **kw)
        except Exception as ex:
            bad.append(("C09.no-error", dict(exc=type(ex).__name__, **w0), None, repr(ex)[:200], None))
            continue
        X, Bp, Bvar = np.asarray(X, float), np.asarray(Bp, float), np.asarray(Bvar, float)
        rng = ub - lb
        for j, k in enumerate(rows):
            r = recs[k]
            w = dict(zero=r["zero"], exact=r["exact"], **w0)
            x = X[j]
            if np.any(x < lb - 1e-2 * rng) or np.any(x > ub + 1e-2 * rng):
                bad.append(("C09.bounds", w, [lb.tolist(), ub.tolist()], x.tolist(), r))
            pred = Kmat @ (A @ x + blv)
            if np.max(np.abs(Bp[j] - pred)) > 1e-9 * (1 + np.max(np.abs(pred))):
                bad.append(("C09.pred-identity", w, pred.tolist(), Bp[j].tolist(), r))
            want_var = Eprop @ (x ** 2)
            if Bvar[j].shape != want_var.shape or np.max(np.abs(Bvar[j] - want_var)) > 1e-9 * (1 + np.max(np.abs(want_var))):
                bad.append(("C09.reported-variance", w, want_var.tolist(), Bvar[j].tolist(), r))
            qstar = (np.asarray(r["q"], float) / r["qden"] + np.asarray(s["blN"], float)) / (D * DK)
            norm_star = np.linalg.norm(qstar - B[k])
            if np.linalg.norm(pred - B[k]) > norm_star + L2EPS + TOLX:
                bad.append(("C09.fit-quality", w, float(norm_star), float(np.linalg.norm(pred - B[k])), r))
            x1 = np.asarray(r["x1"], float) / r["x1den"] / D
            v, v1 = float(epsv @ x ** 2), float(epsv @ x1 ** 2)
            lens = np.sqrt(2 * norm_star * L2EPS + L2EPS ** 2)
            if v > v1 + TOLX * (1 + v1):
                bad.append(("C09.not-larger-than-ordinary-fit", w, v1, v, r))
            if r["exact"]:
                x2 = np.asarray(r["x2"], float) / r["x2den"] / D
                v2 = float(epsv @ x2 ** 2)
                if r["zero"]:
                    if np.max(np.abs(x - x2)) > TOLX + 10 * L2EPS:
                        bad.append(("C09.minimal-variance", w, x2.tolist(), x.tolist(), r))
                else:
                    # the tolerance enlarges the admissible set (lens): the code may be better, never worse
                    if v > v2 + TOLX * (1 + v2):
                        bad.append(("C09.minimal-variance", w, v2, v, r))
                    if np.max(np.abs(pred - qstar)) > TOLX + 3 * lens:
                        bad.append(("C09.fit-quality", dict(kind="prediction", **w), qstar.tolist(), pred.tolist(), r))
    # a tolerance that is not negligible: the minimal variance lies at the edge of the admissible set.  Necessary
    # condition: shrinking the ordinary fit towards the lower bounds stays admissible for a while and has a smaller
    # variance; the result must not be worse than the best such probe point.
    BIG = 0.05
    rows_big = [k for k, r in enumerate(recs) if r["zero"]][:4] + [k for k, r in enumerate(recs) if not r["zero"]][:4]
    if rows_big:
        try:
            Xb, Bpb, _ = est.minimize_variance(B[rows_big].copy(), l2_eps=BIG, Epsilon=("heteroscedastic" if ek == "hetero" else E.copy()))
            for j, k in enumerate(rows_big):
                r = recs[k]
                x1 = np.asarray(r["x1"], float) / r["x1den"] / D
                best = None
                qs = (np.asarray(r["q"], float) / r["qden"] + np.asarray(s["blN"], float)) / (D * DK)
                nstar = float(np.linalg.norm(qs - B[k]))      # best achievable error (0 for in-gamut targets)
                for t in np.linspace(0, 1, 201):
                    y = lb + (x1 - lb) * (1 - t)
                    if np.linalg.norm(Kmat @ (A @ y + blv) - B[k]) <= nstar + BIG * 0.98:
                        v = float(epsv @ y ** 2)
                        best = v if best is None else min(best, v)
                got = float(epsv @ np.asarray(Xb, float)[j] ** 2)
                pred = Kmat @ (A @ np.asarray(Xb, float)[j] + blv)
                if np.linalg.norm(pred - B[k]) > nstar + BIG + 1e-3:
                    bad.append(("C09.fit-quality", dict(variant="large-tolerance", **where0), BIG, float(np.linalg.norm(pred - B[k])), r))
                if best is not None and got > best * 1.02 + 1e-3:
                    bad.append(("C09.minimal-variance", dict(variant="large-tolerance", **where0), best, got, r))
        except Exception as ex:
            bad.append(("C09.no-error", dict(exc=type(ex).__name__, variant="large-tolerance", **where0), None, repr(ex)[:200], None))
    # L1 request on in-gamut targets: the total intensity must be inside the window and the fit kept
    rows = [k for k, r in enumerate(recs) if r["zero"] and r["exact"] and r["nverts"] >= 2][:4]
    for k in rows:
        r = recs[k]
        x2 = np.asarray(r["x2"], float) / r["x2den"] / D
        for L1 in (float(x2.sum()), float(x2.sum()) + 0.05):
            w = dict(variant="L1", **where0)
            try:
                X, Bp, Bvar = est.minimize_variance(B[k:k + 1].copy(), L1=L1, l1_eps=0.02, l2_eps=L2EPS,
                                                    Epsilon=("heteroscedastic" if ek == "hetero" else E.copy()))
                x = np.asarray(X, float)[0]
                if abs(x.sum() - L1) > 0.02 + 1e-3:
                    bad.append(("C09.l1-window", w, L1, float(x.sum()), r))
                pred = Kmat @ (A @ x + blv)
                if np.linalg.norm(pred - B[k]) > L2EPS + TOLX:
                    bad.append(("C09.fit-quality", dict(kind="with-L1", **w), B[k].tolist(), pred.tolist(), r))
                if L1 == float(x2.sum()) and float(epsv @ x ** 2) > float(epsv @ x2 ** 2) * (1 + TOLX) + TOLX:
                    bad.append(("C09.minimal-variance", dict(kind="with-L1", **w), float(epsv @ x2 ** 2), float(epsv @ x ** 2), r))
            except Exception as ex:
                if L1 == float(x2.sum()):
                    bad.append(("C09.no-error", dict(exc=type(ex).__name__, **w), None, repr(ex)[:200], r))
    # the same target at two requested totals in ONE call (an intensity series): each row has its own window
    for k in rows[:2]:
        r = recs[k]
        x2 = np.asarray(r["x2"], float) / r["x2den"] / D
        L1s = np.array([float(x2.sum()), float(x2.sum()) + 0.05, float(x2.sum())])
        w = dict(variant="L1-series", **where0)
        try:
            ok_alone = True
            try:
                est.minimize_variance(B[k:k + 1].copy(), L1=L1s[1], l1_eps=0.02, l2_eps=L2EPS, Epsilon=("heteroscedastic" if ek == "hetero" else E.copy()))
            except Exception:
                ok_alone = False        # the second total is not attainable for this target: nothing to compare
            if ok_alone:
                X, Bp, Bvar = est.minimize_variance(np.repeat(B[k:k + 1], 3, axis=0), L1=L1s.copy(), l1_eps=0.02, l2_eps=L2EPS,
                                                    Epsilon=("heteroscedastic" if ek == "hetero" else E.copy()))
                tot = np.asarray(X, float).sum(1)
                if np.any(np.abs(tot - L1s) > 0.02 + 1e-3):
                    bad.append(("C09.l1-window", w, L1s.tolist(), tot.tolist(), r))
        except Exception as ex:
            bad.append(("C09.no-error", dict(exc=type(ex).__name__, **w), None, repr(ex)[:200], r))
    # default variance model from a registered filter uncertainty
    try:
        F, S = dsys.filters_sources(A)
        sig = 2.0 * (F > 0)
        kw = {}
        if K is not None:
            kw["K"] = K
        if bl is not None:
            kw["baseline"] = bl
        e2 = dreye.ReceptorEstimator(F, domain=1.0, filters_uncertainty=sig, **kw)
        e2.register_system(S, lb=lb, ub=ub)
        wantE = 4.0 * A ** 2
        if not isinstance(e2.Epsilon, np.ndarray) or not np.allclose(e2.Epsilon, wantE, rtol=0, atol=1e-12):
            bad.append(("C09.default-model", dict(variant="uncertainty", **where0), wantE.tolist(), repr(e2.Epsilon)[:200], None))
        else:
            X, Bp, Bvar = e2.minimize_variance(B[:3].copy(), l2_eps=L2EPS)
            Ep = (Kmat ** 2) @ wantE
            if np.max(np.abs(np.asarray(Bvar) - (np.asarray(X) ** 2) @ Ep.T)) > 1e-9 * (1 + np.max(np.abs(Bvar))):
                bad.append(("C09.reported-variance", dict(variant="uncertainty", **where0), None, None, None))
        # the same uncertainty registered AFTER the system: the default variance model is the registered uncertainty
        e3 = dreye.ReceptorEstimator(F, domain=1.0, **kw)
        e3.register_system(S, lb=lb, ub=ub)
        e3.register_uncertainty(sig)
        if not isinstance(e3.Epsilon, np.ndarray) or not np.allclose(e3.Epsilon, wantE, rtol=0, atol=1e-12):
            bad.append(("C09.default-model", dict(variant="uncertainty-after-system", **where0), wantE.tolist(), repr(e3.Epsilon)[:200], None))
    except Exception as ex:
        bad.append(("C09.no-error", dict(exc=type(ex).__name__, variant="uncertainty", **where0), None, repr(ex)[:200], None))
    # a tolerance at the tight end of the documented range (1e-6), mixed in- and out-of-gamut rows.  It is below the
    # accuracy of the default solver, which may therefore give up loudly (RuntimeError) -- but whatever is RETURNED
    # must be in-bound intensities that keep the fit quality; the high-accuracy solver must return.
    rows_t = ([k for k, r in enumerate(recs) if r["zero"]][:2] + [k for k, r in enumerate(recs) if not r["zero"]][:2])
    Eex = "heteroscedastic" if ek == "hetero" else E.copy()
    for sname, skw in (("default", {}), ("CLARABEL", dict(solver="CLARABEL"))):
        w = dict(variant="tight-tolerance", solver=sname, **where0)
        try:
            Xt, Bpt, _ = est.minimize_variance(B[rows_t].copy(), l2_eps=1e-6, Epsilon=Eex, **skw)
        except RuntimeError as ex:
            if sname != "default":
                bad.append(("C09.no-error", dict(exc="RuntimeError", **w), None, repr(ex)[:200], None))
            continue
        except Exception as ex:
            bad.append(("C09.no-error", dict(exc=type(ex).__name__, **w), None, repr(ex)[:200], None))
            continue
        rng = ub - lb
        for j, k in enumerate(rows_t):
            r = recs[k]
            x = np.asarray(Xt, float)[j]
            if not np.all(np.isfinite(x)) or np.any(x < lb - 1e-2 * rng) or np.any(x > ub + 1e-2 * rng):
                bad.append(("C09.bounds", w, [lb.tolist(), ub.tolist()], x.tolist(), r))
                continue
            qstar = (np.asarray(r["q"], float) / r["qden"] + np.asarray(s["blN"], float)) / (D * DK)
            pred = Kmat @ (A @ x + blv)
            tol = TOLX if sname == "default" else 2e-3
            if np.linalg.norm(pred - B[k]) > np.linalg.norm(qstar - B[k]) + 1e-6 + tol:
                bad.append(("C09.fit-quality", w, float(np.linalg.norm(qstar - B[k])), float(np.linalg.norm(pred - B[k])), r))
    return bad


def tight_probe(seed):
    """Tutorial-shaped real-valued systems (Gaussian filters and LEDs, signed opponent matrix K among the adaptations),
    in- and out-of-gamut rows in one call, l2_eps at the tight end of the documented range, default solver.  No oracle
    is needed for the clause asserted here: whatever is returned must be finite in-bound intensities (a loud
    RuntimeError is accepted: 1e-6 is below the default solver's accuracy)."""
    dreye = import_dreye()
    bad, n = [], 0
    dom = np.arange(300.0, 701.0, 5.0)
    g = lambda mu, sd: np.exp(-0.5 * ((dom - mu) / sd) ** 2)
    filters = np.stack([g(m, 40.0) for m in (360.0, 450.0, 540.0)])
    sources = np.stack([g(m, 15.0) for m in (340.0, 400.0, 460.0, 520.0, 590.0)])
    sources = sources / (sources.sum(axis=-1) * 5.0)[:, None]
    Ks = {"none": 1.0, "vector": np.array([1.0, 2.0, 0.5]), "matrix": np.array([[1, 1, 1], [1, -1, 0], [0.5, 0.5, -1.0]])}
    for kname, K in Ks.items():
        for s2 in range(3):
            rng = np.random.default_rng(seed * 100 + s2)
            est = dreye.ReceptorEstimator(filters, domain=dom, K=K)
            est.register_system(sources, lb=0.0, ub=1.0)
            Bin = est.system_relative_capture(rng.uniform(0.25, 0.75, (3, 5)))
            Bout = Bin[:2] + rng.choice([-0.6, 0.5], size=(2, 3)) * np.abs(Bin[:2]).max() * (rng.random((2, 3)) < 0.5)
            B = np.vstack([Bin, Bout])[rng.permutation(5)]
            if s2 == 0:
                # one fixed pair (an in-gamut row followed by a row far outside along one capture axis)
                r5 = np.random.default_rng(5)
                Bi = est.system_relative_capture(r5.uniform(0.25, 0.75, (3, 5)))
                Bo = Bi[:2] + np.array([[0.0, 0.0, -0.6], [0.5, 0.0, 0.0]]) * np.abs(Bi[:2]).max()
                B = np.vstack([Bi, Bo])[[2, 3]]
            for eps in (1e-6, 1e-5):
                w = dict(variant="tight-tolerance-probe", kk=kname, l2_eps=eps, solver="default")
                n += 1
                try:
                    X, Bp, Bv = est.minimize_variance(B.copy(), Epsilon=est.A ** 2, l2_eps=eps)
                except RuntimeError:
                    continue
                except Exception as ex:
                    if type(ex).__name__ == "SolverError":
                        # cvxpy's own loud failure (CLARABEL gives up numerically instead of returning an inaccurate
                        # status): the same event as the library's RuntimeError -- the admissible set at this tolerance
                        # is thinner than the accuracy of the first-stage fit (found with VERIF_SEED=11: every row
                        # of the failing call is solved when passed alone).  Only RETURNED values are judged here.
                        continue
                    bad.append(("C09.no-error", dict(exc=type(ex).__name__, **w), None, repr(ex)[:200], None))
                    continue
                X = np.asarray(X, float)
                if not np.all(np.isfinite(X)) or X.min() < -1e-2 or X.max() > 1 + 1e-2:
                    bad.append(("C09.bounds", w, [0.0, 1.0], [float(np.nanmin(X)), float(np.nanmax(X))], dict(seed=seed * 100 + s2, kk=kname)))
    return bad, n


def _group(sts):
    return [replay_state(st) for st in sts]


def run(ctx):
    thorough = ctx.tier == "thorough"
    res = tlc.run("mc/MC_C09", cfg="mc/MC_C09_%s.cfg" % ("thorough" if thorough else "quick"), dump=True, timeout=3400)
    ctx.add_tlc(res)
    sts = [s for s in tlc.states_parallel(res, "out") if "recs" in s]
    tlc.cleanup(res)
    if not sts:
        raise MachineryFailure("no states")
    groups = grouped(sts, lambda st: repr((st["sys"]["A"], st["sys"]["Kn"], st["sys"]["DK"])))
    sts = [st for g in groups for st in g]
    parts = [r for gp in pmap(_group, groups, chunksize=1) for r in gp]
    nex = 0
    for st, bad in zip(sts, parts):
        for clause, where, exp, obs, r in bad:
            ctx.violation(clause, where, dict(sys=st["sys"], ek=st["ek"], E=st["E"], rec=r, fam=st["fam"]), exp, obs)
        ctx.count("states:%s:%s" % (st["fam"], st["ek"]))
        for r in st["recs"]:
            ctx.evaluations += 1
            nex += r["exact"]
            if r["nverts"] >= 2 or not r["zero"]:
                ctx.nontrivial.add((repr(st["sys"]), st["ek"], tuple(r["b"])))
    pb, pn = tight_probe(ctx.seed)
    for clause, where, exp, obs, r in pb:
        ctx.violation(clause, where, dict(probe=r), exp, obs)
    ctx.count("tight-tolerance probe calls", pn)
    ctx.evaluations += pn
    ctx.traces += len(sts)
    ctx.extra["targets_with_exact_stage2"] = nex
    for st in sts[:2]:
        ctx.sample(dict(sys=st["sys"], ek=st["ek"], rec=st["recs"][0]))
    ctx.assumptions += ["l2_eps=1e-4; out-of-gamut targets: the tolerance enlarges the admissible set, so the exact stage-2 optimum is a one-sided bound (code may be better by the lens allowance, never worse)",
                        "stage 2 solved exactly only when the reduced stage-1 denominator is <= 12 (magnitude guard); others get the weaker checks"]
    return ctx.finish(rule=RULE, exhaustive=True)


def replay(ctx, rep):
    c = rep["case"]
    st = dict(fam=c.get("fam", "?"), sys=c["sys"], ek=c["ek"], E=c["E"], recs=[c["rec"]] if c.get("rec") else [])
    if not st["recs"]:
        return 1
    bad = replay_state(st)
    for b in bad:
        print("still failing:", b[0], b[1], b[3])
    return 1 if bad else 0
