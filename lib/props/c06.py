"""C06 — range of solutions is the exact per-source extent of the solution polytope."""
import warnings

import numpy as np

from .. import tlc, dsys
from ..common import MachineryFailure, import_dreye, pmap

RULE = ("one TLC state per underdetermined lattice system with a target grid; per target the exact extent of every "
        "source over the solution polytope {x in box : K(Ax+bl)=b} from its exact vertex set (TLC invariants: empty "
        "iff exterior, min<=max within bounds, least-squares minimiser inside); replayed into "
        "ReceptorEstimator.range_of_solutions / dreye.range_of_solutions (values 1e-7, spaced solutions 1e-6, "
        "outside: raises, or best fit as both ends).  non-trivial = in-gamut target whose polytope has >= 2 vertices, "
        "or an exterior target; distinct = (system, target)")


def _exp(s, t):
    lo = np.array([n / d for n, d in t["lo"]]) / s["D"]
    hi = np.array([n / d for n, d in t["hi"]]) / s["D"]
    return lo, hi


def _model(s, X):
    A, lb, ub, K, bl = dsys.floats(s)
    Kmat = np.asarray(s["Kn"], float) / s["DK"]
    blv = np.asarray(s["bl"], float) / s["D"]
    return (np.atleast_2d(X) @ A.T + blv) @ Kmat.T


def _dependent_columns(s):
    """some d-subset of the (transformed) source capture vectors is linearly dependent"""
    from itertools import combinations
    M = np.asarray(s["M"], float)
    d, n = M.shape
    return any(abs(np.linalg.det(M[:, list(c)])) < 1e-9 for c in combinations(range(n), d))


def replay_state(args):
    st, ns = args
    dreye = import_dreye()
    s = st["sys"]
    A, lb, ub, K, bl = dsys.floats(s)
    where0 = dict(fam=st["fam"], **dsys.sys_where(s))
    bad = []
    stats = dict(boundary_raised=0, boundary_answered=0, spaced_sets=0, spaced_points=0)
    est = dsys.make_estimator(dreye, s)
    tg = sorted(st["targets"], key=lambda t: t["b"])
    interior = [t for t in tg if t["cls"] == "interior"]
    boundary = [t for t in tg if t["cls"] == "boundary"]
    exterior = [t for t in tg if t["cls"] == "exterior"]
    dyadic = s["DK"] in (1, 2, 4)

    def check_extent(t, xmin, xmax, op):
        lo, hi = _exp(s, t)
        if np.max(np.abs(xmin - lo)) > 1e-7 or np.max(np.abs(xmax - hi)) > 1e-7:
            bad.append(("C06.extent", dict(op=op, cls=t["cls"], nverts=min(t["nverts"], 3), **where0), [lo.tolist(), hi.tolist()], [np.asarray(xmin).tolist(), np.asarray(xmax).tolist()], t))

    if interior:
        B = np.array([dsys.b_float(s, t["b"]) for t in interior])
        for op, fn in (("ReceptorEstimator.range_of_solutions", lambda: est.range_of_solutions(B)),
                       ("range_of_solutions", lambda: dreye.range_of_solutions(B, A, lb, ub, K=(None if K is None else np.atleast_1d(K)), baseline=bl))):
            try:
                xmin, xmax = fn()
                for k, t in enumerate(interior):
                    check_extent(t, xmin[k], xmax[k], op)
            except Exception as ex:
                bad.append(("C06.no-error", dict(op=op, exc=type(ex).__name__, cls="interior", **where0), None, repr(ex)[:200], None))
        # whole-number bounds handed over as integer arrays / lists (the same values in another number type)
        if np.all(np.isfinite(ub)) and np.all(lb == np.rint(lb)) and np.all(ub == np.rint(ub)):
            reps = [("int arrays", lb.astype(int), ub.astype(int)), ("int lb, float ub", lb.astype(int), ub.copy()), ("lists", [int(v) for v in lb], [int(v) for v in ub])]
            for rname, lbr, ubr in reps:
                try:
                    xmin, xmax = dreye.range_of_solutions(B, A, lbr, ubr, K=(None if K is None else np.atleast_1d(K)), baseline=bl)
                    for k, t in enumerate(interior):
                        check_extent(t, np.asarray(xmin, float)[k], np.asarray(xmax, float)[k], "range_of_solutions(%s)" % rname)
                    e2 = dsys.make_estimator(dreye, s)
                    e2.register_bounds(lb=lbr, ub=ubr)
                    xmin, xmax = e2.range_of_solutions(B)
                    for k, t in enumerate(interior):
                        check_extent(t, np.asarray(xmin, float)[k], np.asarray(xmax, float)[k], "ReceptorEstimator.range_of_solutions(%s)" % rname)
                except Exception as ex:
                    bad.append(("C06.no-error", dict(op="range_of_solutions(%s)" % rname, exc=type(ex).__name__, cls="interior", **where0), None, repr(ex)[:200], None))
        # a single target passed as a 1-D vector: 1-D answers equal to the batch row
        try:
            x0, x1 = est.range_of_solutions(B[0].copy())
            if np.ndim(x0) != 1 or np.ndim(x1) != 1:
                bad.append(("C06.extent", dict(op="range_of_solutions(1-D)", kind="shape", **where0), 1, [int(np.ndim(x0)), int(np.ndim(x1))], interior[0]))
            else:
                check_extent(interior[0], x0, x1, "range_of_solutions(1-D)")
        except Exception as ex:
            bad.append(("C06.no-error", dict(op="range_of_solutions(1-D)", exc=type(ex).__name__, cls="interior", **where0), None, repr(ex)[:200], None))
        # the same targets with captures expressed in other units (adaptation scaled by c, targets by c):
        # the solution polytope, hence every extent, is unchanged
        Kmat = np.asarray(s["Kn"], float) / s["DK"]
        for cscale in (1e-4, 1e3):
            try:
                xmin, xmax = dreye.range_of_solutions(B * cscale, A, lb, ub, K=Kmat * cscale, baseline=bl)
                for k, t in enumerate(interior):
                    lo, hi = _exp(s, t)
                    if np.max(np.abs(xmin[k] - lo)) > 1e-7 or np.max(np.abs(xmax[k] - hi)) > 1e-7:
                        bad.append(("C06.extent", dict(op="range_of_solutions", cls="interior", capture_units=cscale, **where0), [lo.tolist(), hi.tolist()], [xmin[k].tolist(), xmax[k].tolist()], t))
            except Exception as ex:
                bad.append(("C06.no-error", dict(op="range_of_solutions", exc=type(ex).__name__, cls="interior", capture_units=cscale, **where0), None, repr(ex)[:200], None))
        # spaced solutions
        for n in ns:
            for k, t in enumerate(interior[:: max(1, len(interior) // 4)]):
                b = dsys.b_float(s, t["b"])
                try:
                    xmin, xmax, Xs = est.range_of_solutions(b, n=n)
                    check_extent(t, xmin, xmax, "range_of_solutions(n)")
                    Xs = np.asarray(Xs, float)
                    stats["spaced_sets"] += 1
                    stats["spaced_points"] += len(Xs)
                    if Xs.ndim != 2 or Xs.shape[1] != A.shape[1] or len(Xs) < 1:
                        bad.append(("C06.spaced-feasible", dict(op="spaced", kind="shape", nsp=n, **where0), None, list(Xs.shape), t))
                        continue
                    if np.any(Xs < lb - 1e-6) or np.any(Xs > ub + 1e-6):
                        bad.append(("C06.spaced-feasible", dict(op="spaced", kind="bounds", nsp=n, **where0), [lb.tolist(), ub.tolist()], Xs[np.argmax(np.max(np.maximum(lb - Xs, Xs - ub), axis=1))].tolist(), t))
                    err = np.max(np.abs(_model(s, Xs) - b))
                    if err > 1e-6:
                        bad.append(("C06.spaced-feasible", dict(op="spaced", kind="reproduce", nsp=n, **where0), b.tolist(), float(err), t))
                    # the same system with intensities in a unit 1024 times larger (a power of two: exact): the spaced
                    # solutions are the same settings, 1/1024 in numbers
                    if n == ns[0] and np.all(np.isfinite(ub)):
                        sc = 1024.0
                        xm2, xM2, Xs2 = dreye.range_of_solutions(b, A * sc, lb / sc, ub / sc, K=(None if K is None else np.atleast_1d(K)), baseline=bl, n=n)
                        Xs1 = dreye.range_of_solutions(b, A, lb, ub, K=(None if K is None else np.atleast_1d(K)), baseline=bl, n=n)[2]
                        Xs1, Xs2 = np.asarray(Xs1, float), np.asarray(Xs2, float)
                        if Xs1.shape != Xs2.shape or np.max(np.abs(Xs2 * sc - Xs1)) > 2e-6 * (1 + np.max(ub - lb)):      # (the insets of the sweep are themselves of relative size 1e-7)
                            bad.append(("C06.spaced-feasible", dict(op="spaced", kind="intensity-unit twin", nsp=n, **where0), Xs1.tolist() if Xs1.size < 60 else None, (Xs2 * sc).tolist() if Xs2.size < 60 else None, t))
                except Exception as ex:
                    bad.append(("C06.no-error", dict(op="spaced", exc=type(ex).__name__, nsp=n, dependent_columns=_dependent_columns(s), **where0), None, repr(ex)[:200], t))
    for t in boundary:
        b = dsys.b_float(s, t["b"])
        try:
            xmin, xmax = est.range_of_solutions(b)
            stats["boundary_answered"] += 1
            if dyadic:
                check_extent(t, xmin, xmax, "ReceptorEstimator.range_of_solutions")
        except ValueError:
            stats["boundary_raised"] += 1
        except Exception as ex:
            bad.append(("C06.no-error", dict(op="ReceptorEstimator.range_of_solutions", exc=type(ex).__name__, cls="boundary", **where0), None, repr(ex)[:200], t))
    for t in exterior[:: max(1, len(exterior) // 6)]:
        b = dsys.b_float(s, t["b"])
        try:
            est.range_of_solutions(b)
            bad.append(("C06.outside-raises", dict(op="ReceptorEstimator.range_of_solutions", **where0), "ValueError", "returned", t))
        except ValueError:
            pass
        except Exception as ex:
            bad.append(("C06.outside-raises", dict(op="ReceptorEstimator.range_of_solutions", exc=type(ex).__name__, **where0), "ValueError", repr(ex)[:200], t))
        for mode in ("ignore", "warn"):
            try:
                with warnings.catch_warnings():
                    warnings.simplefilter("ignore")
                    xmin, xmax = est.range_of_solutions(b, error=mode)
                q = (np.asarray(t["fit"]["q"], float) / t["fit"]["den"] + np.asarray(s["blN"], float)) / (s["D"] * s["DK"])
                if not np.array_equal(xmin, xmax):
                    bad.append(("C06.outside-bestfit", dict(op="range_of_solutions(%s)" % mode, kind="ends-differ", **where0), None, [xmin.tolist(), xmax.tolist()], t))
                elif np.max(np.abs(_model(s, xmin)[0] - q)) > 2e-2:
                    bad.append(("C06.outside-bestfit", dict(op="range_of_solutions(%s)" % mode, kind="not-best-fit", **where0), q.tolist(), _model(s, xmin)[0].tolist(), t))
            except Exception as ex:
                bad.append(("C06.no-error", dict(op="range_of_solutions(%s)" % mode, exc=type(ex).__name__, cls="exterior", below=bool(np.any(b < 0)), **where0), None, repr(ex)[:200], t))
    return bad, stats


def run(ctx):
    thorough = ctx.tier == "thorough"
    res = tlc.run("mc/MC_C06", cfg="mc/MC_C06_%s.cfg" % ("thorough" if thorough else "quick"), dump=True, timeout=3400)
    ctx.add_tlc(res)
    sts = [s for s in tlc.states_parallel(res, "out") if "targets" in s]
    tlc.cleanup(res)
    if not sts:
        raise MachineryFailure("no states")
    ns = list(range(2, 11)) if thorough else [2, 3, 10]
    parts = pmap(replay_state, [(st, ns) for st in sts], chunksize=1)
    tot = {}
    for st, (bad, stats) in zip(sts, parts):
        for clause, where, exp, obs, t in bad:
            ctx.violation(clause, where, dict(sys=st["sys"], target=t, fam=st["fam"]), exp, obs)
        for k, v in stats.items():
            tot[k] = tot.get(k, 0) + v
        ctx.count("systems:" + st["fam"])
        for t in st["targets"]:
            ctx.evaluations += 1
            ctx.count("targets:%s" % t["cls"])
            if t["nverts"] >= 2 or t["cls"] == "exterior":
                ctx.nontrivial.add((repr(st["sys"]), tuple(t["b"])))
    # code -> spec: recorded calls on random lattice systems outside the curated families, recomputed by TLC
    from .. import sysdriver
    sysdriver.run_trace(ctx, "range", "C06", 16, 40 if thorough else 12)
    ctx.traces += len(sts)
    ctx.extra.update(tot)
    ctx.extra["spaced_n"] = ns
    for st in sts[:: max(1, len(sts) // 3)][:3]:
        ctx.sample(dict(sys=st["sys"], fam=st["fam"], targets=[t for t in st["targets"] if t["nverts"] >= 2][:2]))
    ctx.assumptions += ["boundary targets (exactly on the gamut surface): if the call answers and the system is dyadic the extents are asserted; a ValueError is counted, not asserted (C03 leaves the surface undecided)"]
    return ctx.finish(rule=RULE, exhaustive=True)


def replay(ctx, rep):
    c = rep["case"]
    st = dict(fam=c.get("fam", "?"), sys=c["sys"], targets=[c["target"]] if c.get("target") else [])
    bad, _ = replay_state((st, list(range(2, 11))))
    for b in bad:
        print("still failing:", b[0], b[1], b[3])
    return 1 if bad else 0
