"""C04 — the default fit is the global bounded weighted least-squares optimum."""
import numpy as np

from .. import tlc, dsys
from ..common import MachineryFailure, import_dreye, pmap, grouped

RULE = ("one TLC state per (lattice system, receptor weights) carrying a target grid (inside / on / outside the gamut, "
        "below the baseline) with the exact optimum from the active-set/KKT oracle, which TLC proves optimal on the "
        "lattice (variational inequality at every box corner, no probe lattice point better, zero error iff "
        "reproducible); each fit is replayed into ReceptorEstimator.fit and lsq_linear (default solver, tolerance "
        "2e-2 / 1% of range; CLARABEL, tolerance 2e-3 / 1e-6 of range).  non-trivial = target whose optimum is not "
        "at the all-lower-bounds corner; distinct = (system, weights, target)")

TOL = {"default": (2e-2, 1e-2), "high": (2e-3, 1e-6)}


def expected(s, f):
    den = f["den"]
    q = (np.asarray(f["q"], float) / den + np.asarray(s["blN"], float)) / (s["D"] * s["DK"])
    x = np.asarray(f["x"], float) / den / s["D"]
    return q, x


def check_fit(s, w, fits, X, Bp, acc, op, where0):
    """Compare one batch of results with the oracle.  Returns list of violations."""
    bad = []
    A, lb, ub, K, bl = dsys.floats(s)
    tolc, tolb = TOL[acc]
    rng = np.where(np.isfinite(ub), ub - lb, 1.0)
    X = np.asarray(X, float)
    Bp = np.asarray(Bp, float)
    if X.shape != (len(fits), A.shape[1]) or Bp.shape != (len(fits), A.shape[0]):
        return [("C04.no-error", dict(op=op, acc=acc, kind="shape", **where0), None, [list(X.shape), list(Bp.shape)], None)]
    Kmat = np.asarray(s["Kn"], float) / s["DK"]
    blv = np.asarray(s["bl"], float) / s["D"]
    model = (X @ A.T + blv) @ Kmat.T
    for k, f in enumerate(fits):
        q, x = expected(s, f)
        w1 = dict(op=op, acc=acc, below=f["below"], zero=f["zero"], **where0)
        if np.any(X[k] < lb - tolb * rng) or np.any(X[k] > ub + tolb * rng):
            bad.append(("C04.bounds", w1, [lb.tolist(), ub.tolist()], X[k].tolist(), f))
        if np.max(np.abs(Bp[k] - q)) > tolc:
            clause = "C04.zero-iff-ingamut" if f["zero"] else "C04.optimal-pred"
            bad.append((clause, w1, q.tolist(), Bp[k].tolist(), f))
        if np.max(np.abs(Bp[k] - model[k])) > 1e-9 * max(1.0, np.max(np.abs(model[k]))):
            bad.append(("C04.pred-identity", w1, model[k].tolist(), Bp[k].tolist(), f))
        if f["unique"] and A.shape[1] <= A.shape[0]:
            Aw = (Kmat @ A) * np.asarray(w, float)[:, None]
            smin = np.linalg.svd(Aw, compute_uv=False).min()
            if np.max(np.abs(X[k] - x)) > tolc * max(w) / smin * np.sqrt(A.shape[0]) + tolb * rng.max():
                bad.append(("C04.unique-x", w1, x.tolist(), X[k].tolist(), f))
    return bad


def replay_state(st, high=False):
    dreye = import_dreye()
    from dreye.api.optimize.lsq_linear import lsq_linear
    s, w, fits = st["sys"], st["w"], st["fits"]
    if not fits:
        return []
    if all(v == 0 for v in w):
        return replay_inverse(st)
    A, lb, ub, K, bl = dsys.floats(s)
    B = np.array([dsys.b_float(s, f["b"]) for f in fits])
    where0 = dict(fam=st["fam"], **dsys.sys_where(s))
    bad = []
    runs = [("default", {})]
    if high:
        runs.append(("high", dict(solver="CLARABEL")))
    for acc, kw in runs:
        # object API, all targets in one call
        try:
            est = dsys.make_estimator(dreye, s)
            est.w = est.W = np.asarray(w, float)
            res = est.fit(B, **kw)
            bad += check_fit(s, w, fits, res[0], res[1], acc, "ReceptorEstimator.fit", where0)
        except Exception as ex:
            # find which rows fail, one by one
            for k, f in enumerate(fits):
                try:
                    est = dsys.make_estimator(dreye, s)
                    est.w = est.W = np.asarray(w, float)
                    res = est.fit(B[k:k + 1], **kw)
                    bad += check_fit(s, w, [f], res[0], res[1], acc, "ReceptorEstimator.fit", where0)
                except Exception as ex2:
                    bad.append(("C04.no-error", dict(op="ReceptorEstimator.fit", acc=acc, exc=type(ex2).__name__, below=f["below"], zero=f["zero"], **where0), None, repr(ex2)[:200], f))
    # a single target passed as a 1-D vector: same answer as the corresponding row of the batch
    try:
        k0 = next((k for k, f in enumerate(fits) if not f["below"]), 0)
        est = dsys.make_estimator(dreye, s)
        est.w = est.W = np.asarray(w, float)
        r1 = est.fit(B[k0].copy())
        bad += check_fit(s, w, [fits[k0]], np.atleast_2d(r1[0]), np.atleast_2d(r1[1]), "default", "ReceptorEstimator.fit(1-D)", where0)
    except Exception as ex:
        bad.append(("C04.no-error", dict(op="ReceptorEstimator.fit(1-D)", acc="default", exc=type(ex).__name__, below=False, **where0), None, repr(ex)[:200], None))
    # functional API with per-sample weights (same weights in every row here; mixed rows are exercised by C05)
    try:
        Kf = None if K is None else np.atleast_1d(K)
        Wm = np.tile(np.asarray(w, float), (len(fits), 1))
        rows = [k for k, f in enumerate(fits) if not f["below"]] or list(range(len(fits)))
        X, Bp = lsq_linear(A, B[rows], lb=lb, ub=ub, W=Wm[rows], K=Kf, baseline=bl, return_pred=True)
        bad += check_fit(s, w, [fits[k] for k in rows], X, Bp, "default", "lsq_linear", where0)
        # the same per-receptor weights written as a single 2-D row (1, n_receptors)
        X, Bp = lsq_linear(A, B[rows], lb=lb, ub=ub, W=np.asarray(w, float)[None, :], K=Kf, baseline=bl, return_pred=True)
        bad += check_fit(s, w, [fits[k] for k in rows], X, Bp, "default", "lsq_linear(W as one row)", where0)
    except Exception as ex:
        bad.append(("C04.no-error", dict(op="lsq_linear", acc="default", exc=type(ex).__name__, below=False, **where0), None, repr(ex)[:200], None))
    return bad


def replay_inverse(st):
    """W="inverse": the documented string option of the functional API (weights 1/B per sample and receptor)"""
    import_dreye()
    from dreye.api.optimize.lsq_linear import lsq_linear
    s, fits = st["sys"], st["fits"]
    A, lb, ub, K, bl = dsys.floats(s)
    B = np.array([dsys.b_float(s, f["b"]) for f in fits])
    where0 = dict(fam=st["fam"], winv=True, **dsys.sys_where(s))
    bad = []
    try:
        Kf = None if K is None else np.atleast_1d(K)
        X, Bp = lsq_linear(A, B, lb=lb, ub=ub, W="inverse", K=Kf, baseline=bl, return_pred=True)
        for k, f in enumerate(fits):
            bad += check_fit(s, f["w"], [f], np.asarray(X)[k:k + 1], np.asarray(Bp)[k:k + 1], "default", "lsq_linear(W=inverse)", where0)
    except Exception as ex:
        bad.append(("C04.no-error", dict(op="lsq_linear(W=inverse)", acc="default", exc=type(ex).__name__, below=False, **where0), None, repr(ex)[:200], None))
    return bad


def replay_mixed(sts):
    """per-sample weights that differ between the rows of one call: states of the same system with different
    receptor weights are fitted together, row k with the weights (and against the oracle) of its own state"""
    import_dreye()
    from dreye.api.optimize.lsq_linear import lsq_linear
    s = sts[0]["sys"]
    A, lb, ub, K, bl = dsys.floats(s)
    rows = []
    for st in sts:
        if any(v != 0 for v in st["w"]):
            rows += [(st, f) for f in st["fits"] if not f["below"]][:6]
    rows.sort(key=lambda r: (r[1]["b"], r[0]["w"]))
    if len({tuple(r[0]["w"]) for r in rows}) < 2:
        return []
    B = np.array([dsys.b_float(s, f["b"]) for _, f in rows])
    W = np.array([st["w"] for st, _ in rows], float)
    where0 = dict(fam=sts[0]["fam"], mixedW=True, **dsys.sys_where(s))
    bad = []
    try:
        Kf = None if K is None else np.atleast_1d(K)
        X, Bp = lsq_linear(A, B, lb=lb, ub=ub, W=W, K=Kf, baseline=bl, return_pred=True)
        for k, (st, f) in enumerate(rows):
            bad += check_fit(s, st["w"], [f], np.asarray(X)[k:k + 1], np.asarray(Bp)[k:k + 1], "default", "lsq_linear(per-sample W)", where0)
    except Exception as ex:
        bad.append(("C04.no-error", dict(op="lsq_linear(per-sample W)", acc="default", exc=type(ex).__name__, below=False, **where0), None, repr(ex)[:200], None))
    return bad


def illcond_probe(seed):
    """Systems at the ill-conditioned end of the stated regime (condition number 100, 300, 1000 of a positive 3 x 3
    capture matrix; captures ~35, bounds [0.1, 1.5]) and targets generated from interior intensities.  No oracle is
    needed for the clause asserted here: an in-gamut target is reproduced with zero error (to the solver's accuracy)."""
    import_dreye()
    from dreye.api.optimize.lsq_linear import lsq_linear
    bad, n = [], 0
    lb, ub = np.full(3, 0.1), np.full(3, 1.5)
    for cond in (100.0, 300.0, 1000.0):
        for sd in range(4):
            rng = np.random.default_rng(seed * 1000 + sd)
            R = rng.uniform(-1, 1, (3, 3))
            lo, hi = 1e-4, 10.0
            for _ in range(60):
                d = np.sqrt(lo * hi)
                A = 12.0 + d * R
                if np.linalg.cond(A) > cond:
                    lo = d
                else:
                    hi = d
            X = rng.uniform(0.3, 1.2, (8, 3))
            B = X @ A.T
            for acc, kw, tol in (("default", {}, 2e-2), ("high", dict(solver="CLARABEL"), 2e-3)):
                w = dict(op="lsq_linear", acc=acc, cond=cond, illcond=True, below=False, zero=True)
                n += 1
                try:
                    Xf, Bp = lsq_linear(A, B.copy(), lb=lb, ub=ub, return_pred=True, **kw)
                    err = float(np.max(np.abs(np.asarray(Bp) - B)))
                    if err > tol:
                        bad.append(("C04.zero-iff-ingamut", w, 0.0, err, dict(seed=seed * 1000 + sd, cond=cond)))
                    if np.any(np.asarray(Xf) < lb - 1e-2 * (ub - lb)) or np.any(np.asarray(Xf) > ub + 1e-2 * (ub - lb)):
                        bad.append(("C04.bounds", w, [lb.tolist(), ub.tolist()], np.asarray(Xf).tolist(), dict(seed=seed * 1000 + sd, cond=cond)))
                except Exception as ex:
                    bad.append(("C04.no-error", dict(exc=type(ex).__name__, **w), None, repr(ex)[:200], dict(seed=seed * 1000 + sd, cond=cond)))
    return bad, n


def active_lb_probe(seed):
    """Over-determined positive systems in the regime with a positive lower bound that is ACTIVE at the optimum (the
    unconstrained optimum wants a negative intensity).  Clauses that need no oracle: the default fit returns without
    error and within the bounds; its weighted error is not worse than that of the high-accuracy solver by more than the
    default accuracy."""
    import_dreye()
    from dreye.api.optimize.lsq_linear import lsq_linear
    bad, n = [], 0
    cases = [(np.array([[2, .5], [1, 2], [.5, 1.]]), np.array([20., 3., 9.]))]
    rng = np.random.default_rng(seed + 77)
    for _ in range(150):
        A = rng.uniform(0.5, 2.0, (3, 2))
        x = np.array([rng.uniform(3, 9.5), -rng.uniform(0.2, 2.0)])[rng.permutation(2)]
        cases.append((A, np.maximum(A @ x, 1.0)))
    lb, ub = 0.05, 10.0
    for A, b in cases:
        n += 1
        w = dict(op="lsq_linear", acc="default", active_lb=True, below=False, zero=False)
        try:
            X = np.asarray(lsq_linear(A, b.copy(), lb=lb, ub=ub), float)
        except Exception as ex:
            bad.append(("C04.no-error", dict(exc=type(ex).__name__, **w), None, repr(ex)[:200], dict(A=A.tolist(), b=b.tolist())))
            continue
        if np.any(X < lb - 1e-2 * (ub - lb)) or np.any(X > ub + 1e-2 * (ub - lb)):
            bad.append(("C04.bounds", w, [lb, ub], X.tolist(), dict(A=A.tolist(), b=b.tolist())))
        Xh = np.asarray(lsq_linear(A, b.copy(), lb=lb, ub=ub, solver="CLARABEL"), float)
        e, eh = np.linalg.norm(A @ X.ravel() - b), np.linalg.norm(A @ Xh.ravel() - b)
        if e > eh + 2e-2 * np.sqrt(3):
            bad.append(("C04.optimal-pred", w, float(eh), float(e), dict(A=A.tolist(), b=b.tolist())))
    return bad, n


def _chunk(args):
    sts, high = args
    out = [replay_state(st, high) for st in sts]
    # same system, different receptor weights -> one call with per-sample weights; reported on the first state
    for g in grouped(list(range(len(sts))), lambda i: repr(sts[i]["sys"])):
        if len(g) >= 2:
            out[g[0]] = out[g[0]] + replay_mixed([sts[i] for i in g])
    return out


def run(ctx):
    thorough = ctx.tier == "thorough"
    res = tlc.run("mc/MC_C04", cfg="mc/MC_C04_%s.cfg" % ("thorough" if thorough else "quick"), dump=True, timeout=3400)
    ctx.add_tlc(res)
    sts = [s for s in tlc.states_parallel(res, "out") if "fits" in s]
    tlc.cleanup(res)
    if not sts:
        raise MachineryFailure("no states")
    for st in sts:
        st["fits"].sort(key=lambda f: f["b"])
    # states of the same capture matrix (different bounds / baseline / weights) run back to back in one process
    groups = grouped(sts, lambda st: repr((st["sys"]["A"], st["sys"]["Kn"], st["sys"]["DK"])))
    sts = [st for g in groups for st in g]
    jobs = [(g, thorough or (i % 3 == 0)) for i, g in enumerate(groups)]
    parts = [[r] for gp in pmap(_chunk, jobs, chunksize=1) for r in gp]
    for st, part in zip(sts, parts):
        for clause, where, exp, obs, f in part[0]:
            ctx.violation(clause, where, dict(sys=st["sys"], w=st["w"], fit=f, fam=st["fam"]), exp, obs)
        ctx.count("states:" + st["fam"])
        for f in st["fits"]:
            ctx.evaluations += 1
            ctx.count("targets:" + ("in-gamut" if f["zero"] else "below-baseline" if f["below"] else "outside"))
            if any(a != 0 for a in f["asg"]):
                ctx.nontrivial.add((repr(st["sys"]["A"]), repr(st["sys"]["lb"]), repr(st["sys"]["ub"]), st["sys"]["kk"], repr(st["sys"]["Kn"]), repr(st["sys"]["bl"]), tuple(st["w"]), tuple(f["b"])))
    abad, anum = active_lb_probe(ctx.seed)
    for clause, where, exp, obs, case in abad:
        ctx.violation(clause, where, dict(probe=case), exp, obs)
    ctx.count("active positive lower bound probe calls", anum)
    ctx.evaluations += anum
    ibad, inum = illcond_probe(ctx.seed)
    for clause, where, exp, obs, case in ibad:
        ctx.violation(clause, where, dict(probe=case), exp, obs)
    ctx.count("ill-conditioned in-gamut probe calls", inum)
    ctx.evaluations += inum
    # code -> spec: recorded calls on random lattice systems outside the curated families, recomputed by TLC
    from .. import sysdriver
    sysdriver.run_trace(ctx, "fit", "C04", 16, 40 if thorough else 12)
    ctx.traces += len(sts)
    for st in sts[:: max(1, len(sts) // 3)][:3]:
        ctx.sample(dict(sys=st["sys"], w=st["w"], fam=st["fam"], n_targets=len(st["fits"]), first_fits=st["fits"][:3]))
    ctx.assumptions += ["tolerances as stated in the property: 2e-2 capture units / 1% of the bound range (default solver), 2e-3 / 1e-6 (solver='CLARABEL' through **opt_kwargs)",
                        "lattice systems: <=3 receptors x <=4 sources, entries 0..3, bounds in {0,1/4,1/2,1,5/4..2,inf}"]
    return ctx.finish(rule=RULE, exhaustive=True)


def replay(ctx, rep):
    c = rep["case"]
    st = dict(fam=c.get("fam", "?"), sys=c["sys"], w=c["w"], fits=[c["fit"]] if c.get("fit") else [])
    if not st["fits"]:
        print("system-level failure; nothing to replay per target")
        return 1
    bad = replay_state(st, high=True)
    for b in bad:
        print("still failing:", b[0], b[1], b[3])
    return 1 if bad else 0
