"""Running TLC / SANY / Apalache from the harness."""
import os
import re
import shutil
import subprocess
import time

from . import tlaval

VERIF = os.path.dirname(os.path.dirname(os.path.abspath(__file__)))
SPEC = os.path.join(VERIF, "spec")
OUT = os.environ.get("VERIF_OUT_DIR") or os.path.join(VERIF, "out")
JAR = "/opt/veriftools/tla/tla2tools.jar:/opt/veriftools/tla/CommunityModules-deps.jar"
LIBPATH = os.pathsep.join(os.path.join(SPEC, d) for d in ("core", "api", "mc", "trace"))


class TLCFailure(Exception):
    """Machinery failure (parse error, overflow, evaluation error, timeout)."""


class TLCResult:
    def __init__(self):
        self.stdout = ""
        self.generated = 0
        self.distinct = 0
        self.depth = 0
        self.violated = None  # name of violated invariant / property, if any
        self.wall = 0.0
        self.dump = None
        self.coverage = {}
        self.cmd = ""

    @property
    def transitions(self):
        return max(self.generated - 1, 0)


def _java(props, args, timeout, env=None, cwd=None):
    jtmp = os.path.join(OUT, "jtmp")
    os.makedirs(jtmp, exist_ok=True)
    cmd = ["java", "-XX:+UseParallelGC", "-Xss16m", "-Djava.io.tmpdir=" + jtmp, "-DTLA-Library=" + LIBPATH]
    for k, v in (props or {}).items():
        cmd.append("-D%s=%s" % (k, v))
    cmd += ["-cp", JAR] + args
    e = dict(os.environ)
    e.pop("JAVA_TOOL_OPTIONS", None)
    if env:
        e.update(env)
    t0 = time.time()
    try:
        p = subprocess.run(cmd, stdout=subprocess.PIPE, stderr=subprocess.STDOUT, timeout=timeout, env=e, cwd=cwd, text=True)
    except subprocess.TimeoutExpired as ex:
        raise TLCFailure("timeout after %ss: %s" % (timeout, " ".join(cmd)))
    return p, time.time() - t0, " ".join(cmd)


def run(module, cfg=None, workers=16, dump=False, simulate=None, depth=None, seed=None,
        env=None, timeout=1800, coverage=False, props=None, tag=None, deadlock=False,
        allow_violation=False, extra=None):
    """Run TLC on spec/<sub>/<module>.tla.  `module` may be 'mc/MC_C01' or an absolute path.

    simulate: None or dict(num=N, file=prefix or None)
    Returns TLCResult; raises TLCFailure on anything that is not a clean verdict.
    """
    path = module if os.path.isabs(module) else os.path.join(SPEC, module + ("" if module.endswith(".tla") else ".tla"))
    if cfg is None:
        cfg = path[:-4] + ".cfg"
    elif not os.path.isabs(cfg):
        cfg = os.path.join(SPEC, cfg)
    name = tag or os.path.basename(path)[:-4]
    work = os.path.join(OUT, "tlc", "%s-%d" % (name, os.getpid()))
    shutil.rmtree(work, ignore_errors=True)
    os.makedirs(work, exist_ok=True)
    args = ["tlc2.TLC", "-workers", str(workers), "-metadir", os.path.join(work, "meta"), "-noGenerateSpecTE", "-config", cfg]
    if not deadlock:
        args += ["-deadlock"]
    res = TLCResult()
    if dump:
        res.dump = os.path.join(work, "states")
        args += ["-dump", res.dump]
    if simulate:
        s = "num=%d" % simulate["num"]
        if simulate.get("file"):
            s = "file=%s,%s" % (simulate["file"], s)
        args += ["-simulate", s]
        if depth:
            args += ["-depth", str(depth)]
    if seed is not None:
        args += ["-seed", str(seed)]
    if coverage:
        args += ["-coverage", "1"]
    if extra:
        args += list(extra)
    args.append(path)
    p, wall, cmd = _java(props, args, timeout, env=env, cwd=os.path.dirname(path))
    res.stdout = p.stdout
    res.wall = wall
    res.cmd = cmd
    if dump:
        res.dump = res.dump + ".dump"
    out = p.stdout
    m = re.search(r"(\d+) states generated, (\d+) distinct states found", out)
    if m:
        res.generated, res.distinct = int(m.group(1)), int(m.group(2))
    m = re.search(r"depth of the complete state graph search is (\d+)", out)
    if m:
        res.depth = int(m.group(1))
    for m in re.finditer(r"<(\w+) line \d+, col \d+ to line \d+, col \d+ of module (\w+)>: (\d+):(\d+)", out):
        res.coverage[m.group(1)] = (int(m.group(3)), int(m.group(4)))
    mv = re.search(r"Invariant (\S+) is violated|Action property (\S+) is violated|Temporal properties were violated", out)
    if mv:
        res.violated = mv.group(1) or mv.group(2) or "temporal"
    if "The postcondition" in out and "violated" in out or "Postcondition" in out and "violated" in out:
        res.violated = res.violated or "postcondition"
    clean = ("Model checking completed. No error has been found" in out) or (simulate and p.returncode in (0,)) or \
        (simulate and "Finished in" in out and "Error:" not in out)
    if res.violated and allow_violation:
        return res
    if not clean or res.violated:
        lines = out.splitlines()
        key = [l[:400] for l in lines if l.startswith("Error:") or "Overflow" in l or "Attempted" in l or "is violated" in l or "was not in the domain" in l][:8]
        tail = "\n".join(key + ["..."] + [l[:300] for l in lines[-12:]])
        raise TLCFailure("TLC did not finish cleanly (%s)\n%s\n%s" % (res.violated or "rc=%d" % p.returncode, cmd, tail))
    return res


def cleanup(res):
    if res and res.dump:
        shutil.rmtree(os.path.dirname(res.dump), ignore_errors=True)


def states(res, var="out"):
    for st in tlaval.parse_dump(res.dump, var=var):
        if var in st:
            yield st[var]


def printed(res, marker):
    """All PrintT'd tuples whose text starts with <<"marker" ..."""
    return [tlaval.parse(t) for t in tlaval.extract_bracketed(res.stdout, '<<"%s"' % marker)]


def sany(path):
    p, wall, cmd = _java(None, ["tla2sany.SANY", path], 120, cwd=os.path.dirname(path))
    return ("Semantic errors" not in p.stdout and "*** Errors" not in p.stdout and "Fatal errors" not in p.stdout and p.returncode == 0), p.stdout


def _parse_chunk(args):
    text, var = args
    out = []
    import io
    cur_name, buf = None, []

    def flush():
        nonlocal cur_name, buf
        if cur_name == var:
            out.append(tlaval.parse(" ".join(buf)))
        cur_name, buf = None, []

    for line in io.StringIO(text):
        if line.startswith("State "):
            flush()
        elif line.startswith("/\\ "):
            flush()
            m = re.match(r"/\\ (\w+) = (.*)", line.rstrip("\n"))
            cur_name, buf = m.group(1), [m.group(2)]
        elif line.strip():
            buf.append(line.strip())
    flush()
    return out


def states_parallel(res, var="out", procs=16, skip_empty=True):
    """Parse one variable of every dumped state, in parallel."""
    from .common import pmap
    with open(res.dump) as f:
        text = f.read()
    blocks = text.split("\nState ")
    n = max(1, len(blocks) // (procs * 4))
    chunks = ["State " + "\nState ".join(blocks[i:i + n]) for i in range(0, len(blocks), n)]
    parts = pmap(_parse_chunk, [(c, var) for c in chunks], procs=procs, chunksize=1)
    outl = [v for part in parts for v in part]
    if skip_empty:
        outl = [v for v in outl if v != [] and v != {}]
    return outl


def validate_trace(module, events, tag, timeout=1800, deque=False):
    """Write events as ndjson, run trace spec trace/<module>, return (TLCResult, bad list).
    bad = list of [\"BAD\", event index, clause]."""
    import json
    os.makedirs(os.path.join(OUT, "traces"), exist_ok=True)
    path = os.path.join(OUT, "traces", "%s-%d.ndjson" % (tag, os.getpid()))
    with open(path, "w") as f:
        for e in events:
            f.write(json.dumps(e, separators=(",", ":")) + "\n")
    props = {}
    if deque:
        props["tlc2.tool.queue.IStateQueue"] = "StateDeque"
    res = run("trace/" + module, workers=1, env={"TRACE_FILE": path}, timeout=timeout, props=props, tag=tag)
    bad = printed(res, "BAD")
    return res, bad, path


def apalache(module, init, inv, length, timeout=600):
    """Run apalache-mc check on spec/apalache/<module>.tla; True iff EXITCODE: OK."""
    import subprocess
    path = os.path.join(SPEC, "apalache", module + ".tla")
    outdir = os.path.join(OUT, "apa-%d" % os.getpid())
    cmd = ["apalache-mc", "check", "--init=" + init, "--inv=" + inv, "--length=%d" % length, "--out-dir=" + outdir, path]
    try:
        p = subprocess.run(cmd, stdout=subprocess.PIPE, stderr=subprocess.STDOUT, timeout=timeout, text=True, cwd=os.path.dirname(path))
    except subprocess.TimeoutExpired:
        raise TLCFailure("apalache timeout: " + " ".join(cmd))
    finally:
        shutil.rmtree(outdir, ignore_errors=True)
    ok = "EXITCODE: OK" in p.stdout
    if not ok and "EXITCODE: ERROR (12)" not in p.stdout:
        raise TLCFailure("apalache failed: %s\n%s" % (" ".join(cmd), p.stdout[-1500:]))
    return ok, " ".join(cmd)


def simulate_final_states(module, cfg, num, depth, seed, tag, timeout=1800):
    """tlc -simulate file=...: one file per behaviour; return the parsed LAST state (dict var -> value) of each."""
    import glob
    work = os.path.join(OUT, "sim-%s-%d" % (tag, os.getpid()))
    shutil.rmtree(work, ignore_errors=True)
    os.makedirs(work)
    res = run(module, cfg=cfg, workers=1, simulate=dict(num=num, file=os.path.join(work, "tr")), depth=depth, seed=seed, tag="sim-" + tag, timeout=timeout)
    finals = []
    for f in sorted(glob.glob(os.path.join(work, "tr_*"))):
        text = open(f).read()
        blocks = text.split("\nSTATE_")
        if len(blocks) < 2:
            continue
        last = blocks[-1]
        body = last.split("==", 1)[1]
        cur, name, buf = {}, None, []
        for line in body.splitlines():
            if line.startswith("/\\ "):
                if name:
                    cur[name] = tlaval.parse(" ".join(buf))
                m = re.match(r"/\\ (\w+) = (.*)", line)
                name, buf = m.group(1), [m.group(2)]
            elif line.startswith("\\*") or line.startswith("====") or not line.strip():
                continue
            else:
                buf.append(line.strip())
        if name:
            cur[name] = tlaval.parse(" ".join(buf))
        finals.append(cur)
    shutil.rmtree(work, ignore_errors=True)
    return res, finals
