"""Random lattice systems and recorded calls for Trace_Sys.tla (code -> spec direction of C03 / C04 / C06)."""
import random

import numpy as np

from . import dsys, tlc
from .common import import_dreye, pmap

S = 100000
INF = dsys.INF


def rand_system(rng, under=None):
    d = rng.choice([1, 2, 2, 3, 3])
    if under is True:
        n = d + rng.choice([1, 1, 2])
    elif under is False:
        n = rng.choice([max(1, d - 1), d, d])
    else:
        n = rng.choice([max(1, d - 1), d, d + 1, d + 1])
    n = min(n, 4)
    while True:
        A = [[rng.randint(0, 3) for _ in range(n)] for _ in range(d)]
        M = np.array(A)
        if np.all(M.sum(0) > 0) and np.linalg.matrix_rank(M) == min(d, n):
            break
    D = 4
    lb = [rng.choice([0, 0, 1, 2]) for _ in range(n)]
    unb = rng.random() < 0.15 and under is None
    ub = [INF if unb else lb[j] + rng.choice([2, 4, 4, 6]) for j in range(n)]
    kk = rng.choice(["none", "none", "scalar", "vector", "matrix"])
    DK = 1
    Kn = np.eye(d, dtype=int)
    if kk == "scalar":
        DK = rng.choice([1, 2, 3])
        Kn = np.eye(d, dtype=int) * rng.choice([1, 2])
    elif kk == "vector":
        DK = rng.choice([1, 2, 3])
        Kn = np.diag([rng.choice([1, 2, 3]) for _ in range(d)])
    elif kk == "matrix":
        DK = rng.choice([1, 2])
        Kn = np.eye(d, dtype=int) * 2
        for i in range(d - 1):
            Kn[i, i + 1] = rng.choice([0, 1, 1, -1] if unb is False else [0, 1])
    bk = rng.choice(["none", "none", "scalar", "vector"])
    bl = [0] * d
    if bk == "scalar":
        bl = [rng.choice([1, 2])] * d
    elif bk == "vector":
        bl = [rng.randint(0, 3) for _ in range(d)]
    return dict(A=A, D=D, lb=lb, ub=ub, kk=kk, Kn=Kn.tolist(), DK=DK, bk=bk, bl=bl)


def rand_target(rng, s, inside=None):
    """a lattice target (units 1/(D*DK)); inside=True builds it from strictly interior intensities"""
    M = np.array(s["Kn"]) @ np.array(s["A"])
    blN = np.array(s["Kn"]) @ np.array(s["bl"])
    n = len(s["lb"])
    ubt = [s["lb"][j] + 6 if s["ub"][j] == INF else s["ub"][j] for j in range(n)]
    if inside:
        x = [rng.randint(s["lb"][j] + 1, ubt[j] - 1) for j in range(n)]
        return (M @ np.array(x) + blN).tolist()
    x = [rng.randint(s["lb"][j] - 2, ubt[j] + 3) for j in range(n)]
    b = M @ np.array(x) + blN + np.array([rng.randint(-3, 3) for _ in range(len(blN))])
    return b.tolist()


def drive(args):
    kind, seed, n = args
    dreye = import_dreye()
    from dreye.api.convex import in_hull_from_A, range_of_solutions
    from dreye.api.optimize.lsq_linear import lsq_linear
    rng = random.Random(seed)
    events, bad = [], []
    for _ in range(n):
        s = rand_system(rng, under=(True if kind == "range" else None))
        A, lb, ub, K, bl = dsys.floats(s)
        Kf = None if K is None else np.atleast_1d(K)
        base = {k: s[k] for k in ("A", "D", "lb", "ub", "kk", "Kn", "DK", "bk", "bl")}
        try:
            if kind == "inhull":
                bs = [rand_target(rng, s, inside=rng.random() < 0.3) for _ in range(6)]
                B = np.array([dsys.b_float(s, b) for b in bs])
                ans = np.asarray(in_hull_from_A(B, A, lb, ub, K=Kf, baseline=bl)).astype(bool)
                for b, a in zip(bs, ans):
                    events.append(dict(ev="inhull", b=b, ans=bool(a), meta=dict(kind=kind, **dsys.sys_where(s)), **base))
            elif kind == "fit":
                bs = [rand_target(rng, s, inside=rng.random() < 0.3) for _ in range(4)]
                w = [rng.choice([1, 1, 2]) for _ in range(len(s["A"]))]
                B = np.array([dsys.b_float(s, b) for b in bs])
                X, Bp = lsq_linear(A, B, lb=lb, ub=ub, W=np.array(w, float), K=Kf, baseline=bl, return_pred=True)
                for k, b in enumerate(bs):
                    SF = 1000
                    events.append(dict(ev="fit", b=b, w=w, X=np.rint(np.asarray(X)[k] * SF).astype(int).tolist(), Bp=np.rint(np.asarray(Bp)[k] * SF).astype(int).tolist(),
                                       S=SF, tol=int(2e-2 * SF), tolx=int(1e-2 * SF * 2), meta=dict(kind=kind, **dsys.sys_where(s)), **base))
            else:
                bs = [rand_target(rng, s, inside=True) for _ in range(3)]
                B = np.array([dsys.b_float(s, b) for b in bs])
                xmin, xmax = range_of_solutions(B, A, lb, ub, K=Kf, baseline=bl)
                for k, b in enumerate(bs):
                    events.append(dict(ev="range", b=b, Xmin=np.rint(xmin[k] * S).astype(int).tolist(), Xmax=np.rint(xmax[k] * S).astype(int).tolist(),
                                       S=S, tolx=2, meta=dict(kind=kind, **dsys.sys_where(s)), **base))
        except Exception as ex:
            bad.append(("%s.no-error" % {"inhull": "C03", "fit": "C04", "range": "C06"}[kind],
                        dict(op="random-lattice-" + kind, exc=type(ex).__name__, **dsys.sys_where(s)), s, repr(ex)[:200]))
    return bad, events


def run_trace(ctx, kind, prefix, n_jobs, per_job):
    """Drive random systems, validate with Trace_Sys under TLC, feed verdicts into ctx.  Returns number of events."""
    parts = pmap(drive, [(kind, ctx.seed * 1000 + 17 * k + len(kind), per_job) for k in range(n_jobs)], chunksize=1)
    events = []
    for bad, ev in parts:
        for clause, where, s, obs in bad:
            ctx.violation(clause, where, dict(sys=s), None, obs)
        events += ev
    trace = []
    for i, e in enumerate(events):
        t = {k: v for k, v in e.items() if k != "meta"}
        t["i"] = i + 1
        trace.append(t)
    if not trace:
        return 0
    res, badl, path = tlc.validate_trace("Trace_Sys", trace, "Sys-" + kind, timeout=3000)
    ctx.add_tlc(res)
    for _, idx, clause in badl:
        e = events[idx - 1]
        ctx.violation("%s.%s" % (prefix, clause), dict(op="random-lattice-" + kind, **e["meta"]), {k: v for k, v in e.items() if k != "meta"}, None, None)
    ctx.traces += len(trace)
    ctx.evaluations += len(trace)
    ctx.count("random-lattice trace events (%s)" % kind, len(trace))
    ctx.sample({k: v for k, v in events[0].items() if k != "meta"})
    return len(trace)
