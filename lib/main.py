import importlib
import sys

from .common import run_property


def main():
    if len(sys.argv) < 2:
        print("usage: check <ID> [--tier quick|thorough] [--replay PATH]")
        return 2
    pid = sys.argv[1].upper()
    try:
        mod = importlib.import_module("lib.props.%s" % pid.lower())
    except ModuleNotFoundError as ex:
        print("MACHINERY-FAILURE property=%s no check module (%s)" % (pid, ex))
        return 2
    return run_property(mod, pid, sys.argv[2:])


if __name__ == "__main__":
    sys.exit(main())
