"""Shared harness: context, verdicts, known findings, evidence, replay files."""
import hashlib
import json
import os
import sys
import time
import traceback
from fractions import Fraction

VERIF = os.path.dirname(os.path.dirname(os.path.abspath(__file__)))
OUT = os.environ.get("VERIF_OUT_DIR") or os.path.join(VERIF, "out")
REPLAYS = os.path.join(OUT, "replays")
EVID = os.environ.get("VERIF_EVIDENCE_DIR") or os.path.join(VERIF, "evidence")
KNOWN = os.path.join(VERIF, "known_findings.json")
REPO = os.environ.get("DREYE_REPO", "/repo")
NPROC = min(16, os.cpu_count() or 4)


def import_dreye():
    """Import dreye from the working tree under test, with hooks enabled."""
    os.environ.setdefault("DREYE_VERIF", "1")
    if REPO not in sys.path:
        sys.path.insert(0, REPO)
    import dreye  # noqa
    src = os.path.realpath(os.path.dirname(os.path.dirname(dreye.__file__)))
    if src != os.path.realpath(REPO):
        raise RuntimeError("dreye imported from %s, expected %s" % (src, REPO))
    return dreye


class MachineryFailure(Exception):
    pass


def jsonable(v):
    try:
        import numpy as np
    except Exception:  # pragma: no cover
        np = None
    if isinstance(v, Fraction):
        return "%d/%d" % (v.numerator, v.denominator)
    if np is not None:
        if isinstance(v, np.ndarray):
            return jsonable(v.tolist())
        if isinstance(v, (np.integer,)):
            return int(v)
        if isinstance(v, (np.floating,)):
            return float(v)
        if isinstance(v, (np.bool_,)):
            return bool(v)
    if isinstance(v, dict):
        return {str(k): jsonable(x) for k, x in v.items()}
    if isinstance(v, (list, tuple, set, frozenset)):
        return [jsonable(x) for x in v]
    if isinstance(v, float):
        if v != v or v in (float("inf"), float("-inf")):
            return repr(v)
        return v
    if isinstance(v, (int, str, bool)) or v is None:
        return v
    return repr(v)


def _match_value(pat, val):
    if isinstance(pat, str) and len(pat) > 1 and pat[0] in "<>" and val is not None:
        try:
            num = float(pat.lstrip("<>="))
            v = float(val)
        except (TypeError, ValueError):
            return False
        if pat.startswith(">="):
            return v >= num
        if pat.startswith("<="):
            return v <= num
        if pat.startswith(">"):
            return v > num
        return v < num
    if isinstance(pat, list):
        return val in pat
    return pat == val


class Ctx:
    def __init__(self, pid, tier, seed):
        self.pid = pid
        self.tier = tier
        self.seed = seed
        self.t0 = time.time()
        self.violations = []   # unknown
        self.known_hits = {}   # finding id -> count
        self.counts = {}
        self.samples = []
        self.states = 0
        self.transitions = 0
        self.traces = 0
        self.evaluations = 0
        self.nontrivial = set()
        self.assumptions = []
        self.extra = {}
        self.tlc_cmds = []
        self._known = self._load_known()

    # ---- known findings -------------------------------------------------
    def _load_known(self):
        if not os.path.exists(KNOWN):
            return []
        with open(KNOWN) as f:
            data = json.load(f)
        return [e for e in data.get("findings", []) if e.get("property") == self.pid and e.get("status") == "known"]

    def _is_known(self, clause, where):
        for e in self._known:
            if e.get("clause") != clause:
                continue
            if all(_match_value(p, where.get(k)) for k, p in e.get("where", {}).items()):
                return e
        return None

    # ---- bookkeeping ----------------------------------------------------
    def count(self, key, n=1):
        self.counts[key] = self.counts.get(key, 0) + n

    def sample(self, s, limit=6):
        if len(self.samples) < limit:
            self.samples.append(jsonable(s))

    def add_tlc(self, res):
        self.states += res.distinct
        self.transitions += res.transitions
        self.tlc_cmds.append(res.cmd.split(" -cp ")[-1][-200:])

    def violation(self, clause, where, case, expected=None, observed=None, note=None):
        """Record a failed clause.  `where` = small dict of attributes identifying the failing
        call site / configuration (used for known-finding matching)."""
        e = self._is_known(clause, where)
        if e is not None:
            k = e.get("id", clause)
            self.known_hits[k] = self.known_hits.get(k, 0) + 1
            return False
        self.violations.append(dict(clause=clause, where=jsonable(where), case=jsonable(case),
                                    expected=jsonable(expected), observed=jsonable(observed), note=note))
        return True

    # ---- output ---------------------------------------------------------
    def write_replay(self, v):
        os.makedirs(REPLAYS, exist_ok=True)
        body = json.dumps(dict(property=self.pid, **v), sort_keys=True, indent=1)
        h = hashlib.sha1(body.encode()).hexdigest()[:12]
        path = os.path.join(REPLAYS, "%s-%s.json" % (self.pid, h))
        with open(path, "w") as f:
            f.write(body)
        return path

    def finish(self, level="model_checking", rule="", exhaustive=False):
        wall = time.time() - self.t0
        for e in self._known:
            k = e.get("id", e.get("clause"))
            if self.known_hits.get(k):
                print("KNOWN-FINDING: property=%s %s [%s; %d cases this run]" % (self.pid, e.get("what", ""), k, self.known_hits[k]))
        cov = dict(
            states=max(self.states, 0), transitions=max(self.transitions, 0),
            traces_validated_against_impl=self.traces,
            samples=self.samples or ["(none)"],
            evaluations=max(self.evaluations, 1),
            distinct_nontrivial=len(self.nontrivial),
            rule=rule, exhaustive=exhaustive, counts=self.counts,
            known_finding_hits=self.known_hits, tlc=self.tlc_cmds,
        )
        cov.update(self.extra)
        ev = dict(property_id=self.pid, tier=self.tier, seed=self.seed, level=level, coverage=jsonable(cov),
                  assumptions=self.assumptions, wall_s=round(wall, 2), violations=len(self.violations))
        os.makedirs(EVID, exist_ok=True)
        with open(os.path.join(EVID, "%s.json" % self.pid), "w") as f:
            json.dump(ev, f, indent=1, sort_keys=True)
        if self.violations:
            agg = {}
            for v in self.violations:
                key = v["clause"] + " " + json.dumps(v["where"], sort_keys=True)
                agg[key] = agg.get(key, 0) + 1
            os.makedirs(OUT, exist_ok=True)
            with open(os.path.join(OUT, "violations-%s.json" % self.pid), "w") as f:
                json.dump(dict(summary=agg, first=self.violations[:200]), f, indent=1)
            seen = set()
            for v in self.violations:
                key = (v["clause"], json.dumps(v["where"], sort_keys=True))
                if key in seen:
                    continue
                seen.add(key)
                path = self.write_replay(v)
                print("VIOLATION property=%s replay=%s clause=%s where=%s" % (self.pid, path, v["clause"], json.dumps(v["where"], sort_keys=True)))
                if len(seen) >= 20:
                    break
            print("%s: %d violating cases (%d distinct clause/site), wall %.1fs" % (self.pid, len(self.violations), len(seen), wall))
            return 1
        try:
            os.remove(os.path.join(OUT, "violations-%s.json" % self.pid))
        except OSError:
            pass
        print("%s: OK tier=%s states=%d traces=%d evaluations=%d nontrivial=%d wall=%.1fs" % (
            self.pid, self.tier, self.states, self.traces, self.evaluations, len(self.nontrivial), wall))
        return 0


def frac(n, d=1):
    return Fraction(n, d)


def pmap(fn, items, procs=None, chunksize=None):
    """Process-parallel map (fork), preserving order.  fn must be a module-level function."""
    import multiprocessing as mp
    items = list(items)
    if not items:
        return []
    procs = procs or NPROC
    if procs <= 1 or len(items) < 4:
        return [fn(x) for x in items]
    if chunksize is None:
        chunksize = max(1, len(items) // (procs * 8))
    ctx = mp.get_context("fork")
    with ctx.Pool(procs) as pool:
        return pool.map(fn, items, chunksize=chunksize)


def grouped(items, keyfn):
    """Group items that share keyfn(item) into one list each (order preserved): items of one group are processed
    sequentially in ONE worker process, so that anything the library caches across calls (module-level problem
    caches, memoised transforms) meets a different configuration of the same system."""
    groups = {}
    for it in items:
        groups.setdefault(keyfn(it), []).append(it)
    return list(groups.values())


def run_property(mod, pid, argv):
    import argparse
    ap = argparse.ArgumentParser()
    ap.add_argument("--tier", default=os.environ.get("VERIF_TIER", "quick"))
    ap.add_argument("--replay", default=None)
    a = ap.parse_args(argv)
    seed = int(os.environ.get("VERIF_SEED", "0") or 0)
    ctx = Ctx(pid, a.tier, seed)
    try:
        if a.replay:
            with open(a.replay) as f:
                rep = json.load(f)
            return mod.replay(ctx, rep)
        rc = mod.run(ctx)
        return rc
    except MachineryFailure as ex:
        print("MACHINERY-FAILURE property=%s %s" % (pid, ex))
        return 2
    except Exception:
        traceback.print_exc()
        print("MACHINERY-FAILURE property=%s unexpected exception" % pid)
        return 2
