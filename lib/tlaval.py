"""Parser for TLA+ values as printed by TLC (-dump, -simulate file=, PrintT).

Records -> dict, tuples/sequences -> list, sets -> list (sorted as printed),
functions (a :> b @@ c :> d) -> dict, strings -> str, ints -> int, booleans -> bool.
"""
import re

_TOK = re.compile(
    r'\s*(?:(?P<str>"(?:[^"\\]|\\.)*")|(?P<int>-?\d+)|(?P<sym><<|>>|\|->|:>|@@|[\[\]\{\}\(\),])|(?P<id>[A-Za-z_][A-Za-z0-9_!]*))'
)


class ParseError(Exception):
    pass


def tokenize(s):
    pos = 0
    out = []
    n = len(s)
    while pos < n:
        m = _TOK.match(s, pos)
        if not m:
            if s[pos:].strip() == "":
                break
            raise ParseError("bad token at %r" % s[pos:pos + 40])
        pos = m.end()
        if m.group("str") is not None:
            raw = m.group("str")[1:-1]
            out.append(("str", re.sub(r"\\(.)", lambda k: {"n": "\n", "t": "\t"}.get(k.group(1), k.group(1)), raw)))
        elif m.group("int") is not None:
            out.append(("int", int(m.group("int"))))
        elif m.group("sym") is not None:
            out.append(("sym", m.group("sym")))
        else:
            out.append(("id", m.group("id")))
    return out


class _P:
    def __init__(self, toks):
        self.t = toks
        self.i = 0

    def peek(self):
        return self.t[self.i] if self.i < len(self.t) else (None, None)

    def next(self):
        tok = self.t[self.i]
        self.i += 1
        return tok

    def expect(self, sym):
        k, v = self.next()
        if v != sym:
            raise ParseError("expected %s got %r" % (sym, v))

    def value(self):
        v = self.atom()
        # function literal chain  a :> b @@ c :> d
        k, s = self.peek()
        if s == ":>":
            d = {}
            self.next()
            d[_key(v)] = self.atom()
            while self.peek()[1] == "@@":
                self.next()
                a = self.atom()
                self.expect(":>")
                d[_key(a)] = self.atom()
            return d
        return v

    def atom(self):
        k, v = self.next()
        if k == "str" or k == "int":
            return v
        if k == "id":
            if v == "TRUE":
                return True
            if v == "FALSE":
                return False
            return v  # model value
        if v == "<<":
            out = []
            if self.peek()[1] == ">>":
                self.next()
                return out
            while True:
                out.append(self.value())
                k2, s2 = self.next()
                if s2 == ">>":
                    return out
                if s2 != ",":
                    raise ParseError("tuple: got %r" % (s2,))
        if v == "{":
            out = []
            if self.peek()[1] == "}":
                self.next()
                return out
            while True:
                out.append(self.value())
                k2, s2 = self.next()
                if s2 == "}":
                    return out
                if s2 != ",":
                    raise ParseError("set: got %r" % (s2,))
        if v == "[":
            out = {}
            if self.peek()[1] == "]":
                self.next()
                return out
            while True:
                k2, name = self.next()
                self.expect("|->")
                out[name] = self.value()
                k3, s3 = self.next()
                if s3 == "]":
                    return out
                if s3 != ",":
                    raise ParseError("record: got %r" % (s3,))
        if v == "(":
            x = self.value()
            self.expect(")")
            return x
        raise ParseError("unexpected %r" % (v,))


def _key(v):
    if isinstance(v, list):
        return tuple(_key(x) for x in v)
    return v


def parse(s):
    p = _P(tokenize(s))
    v = p.value()
    if p.i != len(p.t):
        raise ParseError("trailing tokens: %r" % (p.t[p.i:p.i + 5],))
    return v


def parse_dump(path, var=None):
    """Yield dict(var -> value) for every state in a TLC -dump file.
    If var is given, only that variable is parsed (faster)."""
    cur = {}
    name = None
    buf = []

    def flush():
        nonlocal name, buf
        if name is not None:
            if var is None or name == var:
                cur[name] = parse(" ".join(buf))
        name, buf = None, []

    with open(path) as f:
        for line in f:
            if line.startswith("State "):
                flush()
                if cur:
                    yield cur
                cur = {}
                continue
            if line.startswith("/\\ "):
                flush()
                m = re.match(r"/\\ (\w+) = (.*)", line.rstrip("\n"))
                name = m.group(1)
                buf = [m.group(2)]
            elif line.strip() == "":
                continue
            else:
                buf.append(line.strip())
        flush()
        if cur:
            yield cur


def extract_bracketed(text, start_marker):
    """Yield every balanced value in `text` that begins with start_marker (e.g. '<<"BAD"').
    Used to recover PrintT lines from multi-worker TLC output."""
    i = 0
    n = len(text)
    while True:
        j = text.find(start_marker, i)
        if j < 0:
            return
        depth = 0
        k = j
        in_str = False
        while k < n:
            c = text[k]
            if in_str:
                if c == "\\":
                    k += 1
                elif c == '"':
                    in_str = False
            else:
                if c == '"':
                    in_str = True
                elif text.startswith("<<", k):
                    depth += 1
                    k += 1
                elif text.startswith(">>", k):
                    depth -= 1
                    k += 1
                    if depth == 0:
                        yield text[j:k + 1]
                        break
            k += 1
        i = k + 1


def to_tla(v):
    """Python value -> TLA+ literal text (ints, bools, str, list->tuple, dict->record)."""
    if isinstance(v, bool):
        return "TRUE" if v else "FALSE"
    if isinstance(v, int):
        return str(v)
    if isinstance(v, str):
        return '"' + v.replace("\\", "\\\\").replace('"', '\\"') + '"'
    if isinstance(v, (list, tuple)):
        return "<<" + ", ".join(to_tla(x) for x in v) + ">>"
    if isinstance(v, dict):
        return "[" + ", ".join("%s |-> %s" % (k, to_tla(x)) for k, x in v.items()) + "]"
    raise TypeError(type(v))
