"""Spec growth beyond the listed properties (DESIGN section 5): helper behaviour the listed properties build on.
Invoked from C03 (corner clouds, in_system) and C19 (arange_with_interval, rounding, equally spaced grids)."""
import numpy as np

from . import tlc, dsys
from .common import import_dreye


def fr(r):
    return r[0] / r[1]


def run(ctx, kinds, prefix):
    dreye = import_dreye()
    from dreye.api.convex import all_combinations_of_bounds, get_P_from_A
    res = tlc.run("mc/MC_Helpers", cfg="mc/MC_Helpers.cfg", dump=True)
    ctx.add_tlc(res)
    sts = [s for s in tlc.states_parallel(res, "out") if "kind" in s and s["kind"] in kinds]
    tlc.cleanup(res)
    n = 0
    for st in sts:
        n += 1
        k = st["kind"]
        w = dict(helper=k)
        try:
            if k == "arange":
                step = st["sn"] / st["sd"]
                arr, iv = dreye.arange_with_interval(float(st["start"]), float(st["stop"]), step, return_interval=True)
                if st["count"] < 2:
                    # a step larger than twice the interval rounds to zero intervals: numpy.linspace(start, stop, 1) is
                    # [start] and `stop` is not included although the docstring promises it.  Outside every listed
                    # property (C19 only calls it with at least one full step): observed, counted, not asserted.
                    ctx.count("helper observation: arange_with_interval returns a single point (stop not included)")
                    continue
                if len(arr) != st["count"] or arr[0] != st["start"] or arr[-1] != st["stop"]:
                    ctx.violation(prefix + ".helper-arange", w, st, st["count"], [len(arr), float(arr[0]), float(arr[-1])])
                raised = False
                try:
                    dreye.arange_with_interval(float(st["start"]), float(st["stop"]), step, raise_on_step_change=True)
                except ValueError:
                    raised = True
                if st["count"] > 1 and raised != st["changed"] and abs(iv - step) > 1e-12 * step:
                    ctx.violation(prefix + ".helper-arange", dict(what="raise_on_step_change", **w), st, st["changed"], raised)
            elif k == "round":
                got = float(dreye.round_to_precision(st["n"] / st["d"], 1.0))
                if got != st["r"]:
                    ctx.violation(prefix + ".helper-round", w, st, st["r"], got)
                got2 = float(dreye.round_to_precision(st["n"] / st["d"] * 0.5, 0.5))
                if got2 != st["r"] * 0.5:
                    ctx.violation(prefix + ".helper-round", dict(precision=0.5, **w), st, st["r"] * 0.5, got2)
            elif k == "corners":
                s = st["sys"]
                A, lb, ub, K, bl = dsys.floats(s)
                bounded = dsys.bounded(s)
                Kf = None if K is None else np.atleast_1d(K)
                P = get_P_from_A(A, lb, ub, K=Kf, baseline=bl, bounded=bounded)
                want = np.array(st["P"], float) / (s["D"] * s["DK"])
                if P.shape != want.shape or np.max(np.abs(P - want)) > 1e-12 * (1 + np.max(np.abs(want))):
                    ctx.violation(prefix + ".helper-corner-cloud", dict(bounded=bounded, **w), dict(sys=s), want.tolist(), P.tolist())
                if bounded:
                    X = all_combinations_of_bounds(lb, ub)
                    wantX = np.array(st["corners"], float) / s["D"]
                    if X.shape != wantX.shape or not np.array_equal(X, wantX):
                        ctx.violation(prefix + ".helper-corner-cloud", dict(what="order", **w), dict(sys=s), wantX.tolist(), X.tolist())
                    if st["ratio"]:
                        R = all_combinations_of_bounds(lb, ub, include_ratios=True)
                        wantR = np.unique(np.round(np.array([[fr(v) for v in p] for p in st["ratio"]]) / s["D"], 12), axis=0)
                        gotR = np.unique(np.round(R, 12), axis=0)
                        if gotR.shape != wantR.shape or np.max(np.abs(gotR - wantR)) > 1e-9:
                            ctx.violation(prefix + ".helper-corner-cloud", dict(what="include_ratios", **w), dict(sys=s), wantR.shape, gotR.shape)
                est = dsys.make_estimator(dreye, s)
                for r in st["insys"]:
                    got = np.asarray(est.in_system(np.array(r["x"], float) / s["D"])).astype(bool).tolist()
                    if got != r["ans"]:
                        ctx.violation(prefix + ".helper-in-system", w, dict(sys=s, x=r["x"]), r["ans"], got)
            elif k == "signif":
                # exact decimal ties (e.g. 25 to one digit) depend on the binary round-off of x * 10^-k: observed only
                got = float(dreye.round_to_significant_digits(float(st["x"]), st["p"]))
                if st["tie"]:
                    ctx.count("helper observation: round_to_significant_digits decimal tie (not asserted)")
                elif abs(got - st["r"]) > 1e-9 * max(1.0, abs(st["r"])):
                    ctx.violation(prefix + ".helper-signif", w, st, st["r"], got)
                arr = np.asarray(dreye.round_to_significant_digits(np.array([st["x"], 0.0, np.inf, -st["x"]], float), st["p"]))
                if not st["tie"] and (abs(arr[0] - st["r"]) > 1e-9 * max(1.0, abs(st["r"])) or arr[1] != 0 or arr[2] != np.inf or abs(arr[3] + st["r"]) > 1e-9 * max(1.0, abs(st["r"]))):
                    ctx.violation(prefix + ".helper-signif", dict(what="array with 0 and inf", **w), st, [st["r"], 0, "inf", -st["r"]], arr.tolist())
            elif k == "norms":
                v = np.array(st["v"], float)
                l1 = float(dreye.l1norm(v))
                l2 = float(dreye.l2norm(v))
                M = np.stack([v, 2 * v])
                if l1 != st["l1"] or abs(l2 * l2 - st["l2sq"]) > 1e-9 * (1 + st["l2sq"]):
                    ctx.violation(prefix + ".helper-norms", w, st, [st["l1"], st["l2sq"]], [l1, l2 * l2])
                if np.asarray(dreye.l1norm(M)).tolist() != [st["l1"], 2 * st["l1"]] or np.asarray(dreye.l1norm(M, axis=0, keepdims=True)).shape != (1, 3):
                    ctx.violation(prefix + ".helper-norms", dict(what="axis/keepdims", **w), st, None, np.asarray(dreye.l1norm(M)).tolist())
            elif k == "grid":
                G = dreye.d_equally_spaced(st["n"], st["d"], one_inclusive=st["incl"])
                want = np.unique(np.round(np.array([[fr(v) for v in p] for p in st["pts"]]), 12), axis=0)
                got = np.unique(np.round(np.asarray(G, float), 12), axis=0)
                if np.asarray(G).shape != (st["n"] ** st["d"], st["d"]) or got.shape != want.shape or np.max(np.abs(got - want)) > 1e-9:
                    ctx.violation(prefix + ".helper-grid", w, st, want.shape, np.asarray(G).shape)
        except Exception as ex:
            ctx.violation(prefix + ".helper-no-error", dict(exc=type(ex).__name__, **w), st if k != "corners" else dict(sys=st["sys"]), None, repr(ex)[:200])
    ctx.count("helper cases (%s)" % ",".join(sorted(kinds)), n)
    ctx.evaluations += n
    return n
