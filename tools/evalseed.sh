#!/bin/sh
# tools/evalseed.sh <PID> <worktree> <patch.diff> [tier]
# Apply a seeded change in a scratch worktree (never /repo), run the check against it, revert.
# Prints DETECTED / MISSED.  Evidence of these runs goes to out/seed-evidence, not to evidence/.
# A patch that no longer applies on main is applied on the commit it was written against (meta.json base_commit); the
# check is then ALSO run on that clean base, and only violation signatures (clause + site) that the patch ADDS count:
# an old base may contain defects that were repaired since and that the current checks report on their own.
PID=$1; WT=$2; PATCH=$3; TIER=${4:-quick}; VH="$(cd "$(dirname "$0")/.." && pwd)"
cd "$WT" || exit 2
git checkout -q -- . || exit 2
BASE=$(python3 -c "import json,os,sys; p=os.path.join(os.path.dirname('$PATCH'),'meta.json'); print(json.load(open(p)).get('base_commit','') if os.path.exists(p) else '')" 2>/dev/null)
git checkout -q --detach main 2>/dev/null
ONBASE=0
if ! git apply --check "$PATCH" 2>/dev/null && [ -n "$BASE" ]; then git checkout -q --detach "$BASE"; ONBASE=1; echo "(applied on base commit $BASE)"; fi
git apply --check "$PATCH" 2>/dev/null || { echo "PATCH-DOES-NOT-APPLY"; exit 2; }
cd "$VH"
mkdir -p out/seed-evidence
run_check() { DREYE_REPO="$WT" VERIF_EVIDENCE_DIR=$VH/out/seed-evidence VERIF_OUT_DIR=$VH/out/seed-out ./check "$PID" --tier "$TIER" > "$1" 2>&1; }
S0=out/seed-$PID-$$.base.json; rm -f "$S0"
if [ $ONBASE -eq 1 ]; then
  rm -f out/seed-out/violations-$PID.json
  run_check "out/seed-$PID-$$.base.log"
  [ -f out/seed-out/violations-$PID.json ] && cp out/seed-out/violations-$PID.json "$S0"
fi
git -C "$WT" apply "$PATCH" || { echo "PATCH-DOES-NOT-APPLY"; exit 2; }
rm -f out/seed-out/violations-$PID.json
run_check "out/seed-$PID-$$.log"
rc=$?
git -C "$WT" checkout -q -- .
if [ $rc -eq 1 ] && [ $ONBASE -eq 1 ]; then
  new=$(python3 - "$S0" out/seed-out/violations-$PID.json <<'PY'
import json,sys,os
s0=json.load(open(sys.argv[1]))["summary"] if os.path.exists(sys.argv[1]) else {}
s1=json.load(open(sys.argv[2]))["summary"] if os.path.exists(sys.argv[2]) else {}
print(sum(1 for k,v in s1.items() if v>s0.get(k,0)), len(s0))
PY
)
  n1=${new% *}; n0=${new#* }
  if [ "$n1" -gt 0 ]; then echo "DETECTED rc=1 on base: $n1 violation signatures added by the patch ($n0 already on the clean base); first: $(grep '^VIOLATION' out/seed-$PID-$$.log | head -1 | cut -c1-200)";
  else echo "INCONCLUSIVE rc=1 on base: every violation signature is already reported on the clean base ($n0)"; fi
elif [ $rc -eq 1 ]; then echo "DETECTED rc=1: $(grep -c '^VIOLATION' out/seed-$PID-$$.log) violation lines; first: $(grep '^VIOLATION' out/seed-$PID-$$.log | head -1 | cut -c1-260)";
elif [ $rc -eq 0 ]; then echo "MISSED rc=0: $(tail -1 out/seed-$PID-$$.log)";
else echo "MACHINERY rc=$rc: $(tail -3 out/seed-$PID-$$.log | cut -c1-300)"; fi
