#!/bin/sh
# tools/evalseed.sh <PID> <worktree> <patch.diff> [tier]
# Apply a seeded change in a scratch worktree (never /repo), run the check against it, revert.
# Prints DETECTED / MISSED.  Evidence of these runs goes to out/seed-evidence, not to evidence/.
PID=$1; WT=$2; PATCH=$3; TIER=${4:-quick}; VH="$(cd "$(dirname "$0")/.." && pwd)"
cd "$WT" || exit 2
git checkout -q -- . || exit 2
# seeds are applied on the commit they were written against (meta.json base_commit), unless they still apply on main
BASE=$(python3 -c "import json,os,sys; p=os.path.join(os.path.dirname('$PATCH'),'meta.json'); print(json.load(open(p)).get('base_commit','') if os.path.exists(p) else '')" 2>/dev/null)
git checkout -q --detach main 2>/dev/null
if ! git apply --check "$PATCH" 2>/dev/null && [ -n "$BASE" ]; then git checkout -q --detach "$BASE"; echo "(applied on base commit $BASE)"; fi
git apply "$PATCH" || { echo "PATCH-DOES-NOT-APPLY"; exit 2; }
cd "$VH"
mkdir -p out/seed-evidence
DREYE_REPO="$WT" VERIF_EVIDENCE_DIR=$VH/out/seed-evidence VERIF_OUT_DIR=$VH/out/seed-out ./check "$PID" --tier "$TIER" > "out/seed-$PID-$$.log" 2>&1
rc=$?
git -C "$WT" checkout -q -- .
if [ $rc -eq 1 ]; then echo "DETECTED rc=1: $(grep -c '^VIOLATION' out/seed-$PID-$$.log) violation lines; first: $(grep '^VIOLATION' out/seed-$PID-$$.log | head -1 | cut -c1-260)";
elif [ $rc -eq 0 ]; then echo "MISSED rc=0: $(tail -1 out/seed-$PID-$$.log)";
else echo "MACHINERY rc=$rc: $(tail -3 out/seed-$PID-$$.log | cut -c1-300)"; fi
