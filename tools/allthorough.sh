#!/bin/sh
# tools/allthorough.sh: run every thorough check once (separate evidence / out directories); one line per check
cd "$(dirname "$0")/.." || exit 2
export VERIF_EVIDENCE_DIR="$(pwd)/out/thorough-evidence" VERIF_OUT_DIR="$(pwd)/out/thorough-out"
mkdir -p "$VERIF_EVIDENCE_DIR" "$VERIF_OUT_DIR"
for P in C01 C02 C03 C04 C05 C06 C07 C08 C09 C10 C11 C12 C13 C14 C15 C16 C17 C18 C19 C20; do
  s=$(date +%s)
  r=$(timeout 2400 ./check $P --tier thorough 2>&1 | tail -1 | cut -c1-150)
  echo "$P rc=$? $(( $(date +%s) - s ))s: $r"
done
