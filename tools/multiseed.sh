#!/bin/sh
# tools/multiseed.sh [seeds...]: run every quick check under several VERIF_SEED values (false-alarm hunt); prints one line per run
cd "$(dirname "$0")/.." || exit 2
export VERIF_EVIDENCE_DIR="$(pwd)/out/multiseed-evidence" VERIF_OUT_DIR="$(pwd)/out/multiseed-out"
mkdir -p "$VERIF_EVIDENCE_DIR" "$VERIF_OUT_DIR"
for s in ${@:-2 3 4}; do
  for P in C01 C02 C03 C04 C05 C06 C07 C08 C09 C10 C11 C12 C13 C14 C15 C16 C17 C18 C19 C20; do
    r=$(VERIF_SEED=$s ./check $P 2>&1 | tail -1 | cut -c1-150)
    echo "seed=$s $r"
  done
done
