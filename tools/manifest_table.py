HOOK_COMMITS = []

add("C01", "TLC exhaustive case enumeration of Capture.tla + integer-exact replay into the code + TLC trace validation of recorded calls",
    "Capture.tla states the trapezoid rule pairwise; TLC enumerates every shape class x domain variant x lattice array (invariants: pairwise-only, dx==domain, definition==oracle), every state is replayed into calculate_capture / integral / ReceptorEstimator.capture and must match as exact integers; random larger lattice executions are recorded and accepted or rejected by Trace_C01 under TLC.",
    "Trusted: TLC, the TLA+ value parser, numpy float exactness on small integers/dyadics. Lattice values only (DESIGN L1).")

add("C03", "TLC: exact zonotope/cone membership class of every lattice target (H-form oracle == V-form definition as invariant); replay of all (system, target) pairs into the membership API",
    "Convex.tla defines in-gamut as reproducibility by in-bound intensities; TLC proves on every lattice system x target that the facet (H-form) oracle equals vertex enumeration of the solution polytope (V-form), and emits the exact class of each target; every pair is replayed into ReceptorEstimator.in_hull, in_hull_from_A, in_hull(cloud) and the chromatic variant: interior must be accepted, exterior rejected.",
    "Trusted: TLC, parser. Lattice only: <=3 receptors x <=4 sources exhaustively, boundary targets recorded but not asserted; distance of asserted targets to the boundary >= ~1e-2.")

add("C04", "TLC: exact bounded weighted least-squares optimum by active-set/KKT enumeration, proved optimal on the lattice (variational inequality, probe points, zero-error iff reproducible); replay into fit / lsq_linear within the property's solver tolerances",
    "LsqLinear.tla states the normalised objective; TLC computes the exact optimum for every lattice (system, weights, target) and checks the definition of optimality as invariants; each case is replayed into ReceptorEstimator.fit (default solver and CLARABEL through **opt_kwargs) and lsq_linear (per-sample weights): no error, bounds, optimal prediction, prediction identity, unique intensities.",
    "Trusted: TLC, parser, the tolerances written in the property (2e-2 / 1% default; 2e-3 / 1e-6 high accuracy). Lattice only (<=3x4, entries 0..3).")
add("C06", "TLC: exact vertex set of the solution polytope -> per-source extents; invariants min<=max, within bounds, LSQ minimiser inside, empty iff exterior; replay into range_of_solutions incl. spaced solutions and error modes",
    "Convex.tla!RangeOf gives the exact extents as rationals from vertex enumeration; every lattice (system, target) is replayed: extents to 1e-7, spaced solutions (n=2..10) in bounds and reproducing the target to 1e-6, outside targets raise / return the best fit as both ends.",
    "Trusted: TLC, parser. Boundary targets asserted only when the call answers and the system is dyadic. Lattice: 1-3 receptors, 1-3 surplus sources.")

HOOK_COMMITS += ["1437fd2", "a063bd9"]
add("C05", "TLC model checking of the batch-schedule state machine (Parallel.tla) + Apalache inductive invariant for unbounded N, batch size + TLC trace validation (Trace_C05) of hook-recorded executions of every fitting procedure",
    "Parallel.tla models batched_iteration/_solve_problem as a partition-and-scatter machine: TLC checks for all N<=6 and all batch sizes (incl. 'full', >N) that every row is written exactly once with its own optimum and the call terminates without failure, for the code's schedule and for every generic schedule; Apalache discharges the inductive invariant for all N, bs. The real gaussian / poisson / excitation / variance-minimisation calls are executed for every (N, batch size) with hooks on; Trace_C05 validates partition, absence of failure, and that the inferred per-row result function is the same for every batch size and neighbourhood (permuted / duplicated / dropped / appended rows).",
    "Trusted: TLC, Apalache, parser, hook placement (after the scatter). Row agreement tolerance 4e-2 capture units. Hooks absent => partition sub-check skipped (never a violation).")
