HOOK_COMMITS = []

add("C01", "TLC exhaustive case enumeration of Capture.tla + integer-exact replay into the code + TLC trace validation of recorded calls",
    "Capture.tla states the trapezoid rule pairwise; TLC enumerates every shape class x domain variant x lattice array (invariants: pairwise-only, dx==domain, definition==oracle), every state is replayed into calculate_capture / integral / ReceptorEstimator.capture and must match as exact integers; random larger lattice executions are recorded and accepted or rejected by Trace_C01 under TLC.",
    "Trusted: TLC, the TLA+ value parser, numpy float exactness on small integers/dyadics. Lattice values only (DESIGN L1).")
