HOOK_COMMITS = []

add("C01", "TLC exhaustive case enumeration of Capture.tla + integer-exact replay into the code + TLC trace validation of recorded calls",
    "Capture.tla states the trapezoid rule pairwise; TLC enumerates every shape class x domain variant x lattice array (invariants: pairwise-only, dx==domain, definition==oracle), every state is replayed into calculate_capture / integral / ReceptorEstimator.capture and must match as exact integers; random larger lattice executions are recorded and accepted or rejected by Trace_C01 under TLC.",
    "Trusted: TLC, the TLA+ value parser, numpy float exactness on small integers/dyadics. Lattice values only (DESIGN L1).")

add("C03", "TLC: exact zonotope/cone membership class of every lattice target (H-form oracle == V-form definition as invariant); replay of all (system, target) pairs into the membership API",
    "Convex.tla defines in-gamut as reproducibility by in-bound intensities; TLC proves on every lattice system x target that the facet (H-form) oracle equals vertex enumeration of the solution polytope (V-form), and emits the exact class of each target; every pair is replayed into ReceptorEstimator.in_hull, in_hull_from_A, in_hull(cloud) and the chromatic variant: interior must be accepted, exterior rejected.",
    "Trusted: TLC, parser. Lattice only: <=3 receptors x <=4 sources exhaustively, boundary targets recorded but not asserted; distance of asserted targets to the boundary >= ~1e-2.")
