#!/bin/sh
# tools/confirm_seed.sh <worktree> <seed dir>  -> prints CONFIRMED / REJECTED with reasons
WT=$1; SD=$2
cd "$WT" || exit 2
git checkout -q -- . 
/venv/bin/python "$SD/demo.py" >/dev/null 2>&1; c0=$?
git apply "$SD/patch.diff" 2>/dev/null || { echo "REJECTED patch does not apply"; exit 1; }
/venv/bin/python -c "import sys; sys.path.insert(0,'.'); import dreye" >/dev/null 2>&1; imp=$?
/venv/bin/python "$SD/demo.py" >/dev/null 2>&1; c1=$?
/venv/bin/python -m pytest -q -p no:cacheprovider --timeout=900 --continue-on-collection-errors -rA tests 2>/dev/null | grep -E '^(PASSED|FAILED|ERROR)' | sed 's/ - .*//' | sort > /tmp/seedtests.$$
git checkout -q -- .
/venv/bin/python - "$$" <<'PY'
import json,sys
base=json.load(open('/root/.vp/BASELINE.json'))['stable_pass']
got=set()
for l in open('/tmp/seedtests.%s'%sys.argv[1]):
    st,name=l.split()[:2]
    if st=='PASSED':
        f,t=name.split('::',1); got.add(f.replace('/','.').replace('.py','')+'::'+t)
missing=[b for b in base if b not in got]
print("stable tests missing:",len(missing), missing[:3])
open('/tmp/seedmissing.%s'%sys.argv[1],'w').write(str(len(missing)))
PY
m=$(cat /tmp/seedmissing.$$); rm -f /tmp/seedtests.$$ /tmp/seedmissing.$$
if [ $c0 -eq 0 ] && [ $c1 -ne 0 ] && [ $imp -eq 0 ] && [ "$m" = "0" ]; then echo "CONFIRMED demo clean=$c0 patched=$c1 import=$imp stable_missing=$m"; else echo "REJECTED demo clean=$c0 patched=$c1 import=$imp stable_missing=$m"; fi
