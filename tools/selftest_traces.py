#!/usr/bin/env python3
"""Binding demonstration: for every trace spec, take the most recent recorded trace (out/traces), check that TLC
accepts it, then corrupt one logged field / drop one event and check that TLC rejects it.
Run after the checks have been run once:  /venv/bin/python tools/selftest_traces.py"""
import glob, json, os, sys, copy
sys.path.insert(0, os.path.dirname(os.path.dirname(os.path.abspath(__file__))))
from lib import tlc

def latest(tag):
    fs = sorted(glob.glob(os.path.join(tlc.OUT, "traces", tag + "-*.ndjson")), key=os.path.getmtime)
    return fs[-1] if fs else None

def load(path, limit):
    ev = [json.loads(l) for l in open(path)]
    return ev[:limit]

def verdict(module, events, tag):
    res, bad, _ = tlc.validate_trace(module, events, "selftest-" + tag)
    return len(bad)

def bump(v):
    if isinstance(v, bool): return not v
    if isinstance(v, int): return v + 977
    if isinstance(v, list) and v: return [bump(v[0])] + v[1:]
    return v

CASES = [  # (trace module, tag, header?, event filter, field to corrupt)
    ("Trace_C01", "C01", False, lambda e: e.get("op") == "calculate_capture" and not e.get("exc"), "res"),
    ("Trace_C05", "C05", True, lambda e: e.get("ev") == "Row", "fp"),
    ("Trace_C05", "C05", True, lambda e: e.get("ev") == "Solve", "first_row"),
    ("Trace_C11", "C11", False, lambda e: e.get("ev") == "Eval" and e.get("n", 0) >= 1, "loss"),
    ("Trace_C13", "C13", True, lambda e: e.get("ev") == "sample" and e.get("n", 0) >= 2, "pts"),
    ("Trace_C17", "C17", False, lambda e: e.get("ev") == "proj", "xs"),
    ("Trace_C18", "C18", False, lambda e: e.get("ev") == "step" and e.get("op") == "scale", "vol1"),
    ("Trace_Sys", "Sys-fit", False, lambda e: e.get("ev") == "fit", "Bp"),
    ("Trace_Sys", "Sys-range", False, lambda e: e.get("ev") == "range", "Xmax"),
]
ok = True
for module, tag, header, flt, field in CASES:
    path = latest(tag)
    if not path:
        print("SKIP %s: no recorded trace (run ./check first)" % tag); continue
    ev = load(path, 400)
    base = verdict(module, ev, tag)
    idx = next((k for k, e in enumerate(ev) if flt(e)), None)
    if idx is None:
        print("SKIP %s/%s: no matching event" % (tag, field)); continue
    mut = copy.deepcopy(ev)
    v = mut[idx][field]
    if field == "pts":
        mut[idx][field] = [[x + 50000 for x in v[0]]] + v[1:]
    elif field in ("xs",):
        mut[idx][field] = [[x + 5000 for x in v[0]]] + v[1:]
    elif field in ("fp", "Bp", "Xmax", "res"):
        mut[idx][field] = bump(v) if not isinstance(v, list) else (json.loads(json.dumps(v)))
        # bump the first scalar found
        def bump_first(a):
            if isinstance(a, list):
                if a and not isinstance(a[0], list):
                    a[0] = a[0] + 977; return True
                return any(bump_first(x) for x in a[:1])
            return False
        if isinstance(mut[idx][field], list): bump_first(mut[idx][field])
        else: mut[idx][field] = v + 977
    elif field == "loss":
        mut[idx][field] = v + 10 ** 7
    else:
        mut[idx][field] = bump(v)
    corrupted = verdict(module, mut, tag)
    res = "ok" if (base == 0 and corrupted > 0) else "FAIL"
    ok &= res == "ok"
    print("%-10s %-10s field=%-9s clean: %d BAD, corrupted: %d BAD  -> %s" % (module, tag, field, base, corrupted, res))
    if module == "Trace_C05" and field == "first_row":
        # removing a Solve event (one hook missing) must be rejected as well: rows left unwritten
        dropped = [e for k, e in enumerate(ev) if k != idx]
        for k, e in enumerate(dropped): e["i"] = k if header else k + 1
        d = verdict(module, dropped, tag)
        print("%-10s %-10s one Solve event removed: %d BAD -> %s" % (module, tag, d, "ok" if d > 0 else "FAIL"))
        ok &= d > 0
print("SELFTEST", "PASSED" if ok else "FAILED")
sys.exit(0 if ok else 1)
