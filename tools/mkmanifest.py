#!/usr/bin/env python3
"""Regenerate /verif/MANIFEST.json from the table below (keeps it schema-valid)."""
import json
import os

HERE = os.path.dirname(os.path.dirname(os.path.abspath(__file__)))
props = [json.loads(l) for l in open(os.path.join(HERE, "properties.jsonl"))]
ALL = [p["id"] for p in props]

# id -> (category, technique, text, note, design_ref)
CHECKS = {}
NA = {}


def add(pid, technique, text, note, cat="model_checking"):
    CHECKS[pid] = (cat, technique, text, note)


exec(open(os.path.join(HERE, "tools", "manifest_table.py")).read())

checks = []
for pid in ALL:
    if pid not in CHECKS:
        continue
    cat, tech, text, note = CHECKS[pid]
    checks.append(dict(
        property_id=pid,
        quick_cmd="./check %s --tier quick" % pid,
        thorough_cmd="./check %s --tier thorough" % pid,
        evidence_file="/verif/evidence/%s.json" % pid,
        replay_cmd_template="./check %s --replay {path}" % pid,
        engine="tlc-conformance",
        level_claimed=dict(category=cat, text=text, design_ref="DESIGN.md section 4, %s" % pid),
        level_note=note,
        technique=tech,
    ))
na = [dict(property_id=p, reason=NA.get(p, "check not built yet in this round; see DESIGN.md section 4 for the plan")) for p in ALL if p not in CHECKS]
man = dict(
    version=1,
    setup_cmd="sh /verif/setup.sh",
    hooks=dict(guard="DREYE_VERIF", enable="export DREYE_VERIF=1 (and DREYE_VERIF_TRACE=<file>) before importing dreye from /repo; the package is installed in develop mode so the working tree is what is imported",
               baseline_off_cmd="cd /repo && env -u DREYE_VERIF /venv/bin/python -m pytest -ra -q -p no:cacheprovider --timeout=900 --continue-on-collection-errors",
               source_commits=HOOK_COMMITS, add_only=True),
    engines=[dict(name="tlc-conformance", path="/verif/check", serves_properties=sorted(CHECKS),
                  kind_free_text="explicit TLA+ specification (spec/) model-checked with TLC; TLC-generated cases replayed into dreye (spec->code) and recorded executions of dreye validated by TLC trace specs (code->spec)")],
    checks=checks,
    not_applicable=na,
    notes="Exit codes of ./check: 0 held, 1 VIOLATION (not a listed known finding), 2 machinery failure. Known findings: /verif/known_findings.json.",
)
with open(os.path.join(HERE, "MANIFEST.json"), "w") as f:
    json.dump(man, f, indent=1)
print("MANIFEST.json: %d checks, %d not_applicable" % (len(checks), len(na)))
