#!/usr/bin/env python3
"""Validate MANIFEST.json and evidence files against the schemas (run with python3-vt)."""
import glob, json, sys
import jsonschema
ok = True
def chk(path, schema):
    global ok
    try:
        jsonschema.validate(json.load(open(path)), json.load(open(schema)))
    except Exception as ex:
        ok = False
        print("INVALID", path, str(ex)[:300])
chk('/verif/MANIFEST.json', '/root/.vp/MANIFEST.schema.json')
for p in sorted(glob.glob('/verif/evidence/*.json')):
    chk(p, '/root/.vp/EVIDENCE.schema.json')
print("all valid" if ok else "INVALID FILES")
sys.exit(0 if ok else 1)
