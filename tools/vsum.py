#!/usr/bin/env python3
"""Summarise out/violations-<ID>.json: tools/vsum.py C06 [keys...]"""
import collections, json, sys
pid = sys.argv[1]
keys = sys.argv[2:] or ["op", "fam", "exc", "kind", "cls", "kk"]
d = json.load(open('/verif/out/violations-%s.json' % pid))
c = collections.Counter()
for k, v in d['summary'].items():
    cl, w = k.split(' ', 1)
    w = json.loads(w)
    c[(cl,) + tuple(w.get(x) for x in keys)] += v
for k, v in sorted(c.items()):
    print(v, k)
print(json.dumps(d['first'][0])[:1500])
