#!/bin/sh
# Re-run every stored seed against the check of its own property and, where that misses, against the other checks its
# meta.json names under detected_by (stateful seeds are the business of C14); writes seeded/RESULTS.txt
cd "$(dirname "$0")/.." || exit 2
WT=/tmp/wt-eval-$$
git -C /repo worktree add -q --detach "$WT" main || exit 2
: > seeded/RESULTS.txt
for d in seeded/*/; do
  id=$(basename "$d"); pid=${id%%-*}
  r=$(tools/evalseed.sh "$pid" "$WT" "$(pwd)/$d/patch.diff" 2>&1 | grep -v whitespace | tail -1 | cut -c1-160)
  echo "$id $pid: $r" | tee -a seeded/RESULTS.txt
  case "$r" in DETECTED*) continue;; esac
  for other in $(python3 -c "import json,re; print(' '.join(sorted({m for s in json.load(open('$d/meta.json')).get('detected_by',[]) for m in re.findall(r'C\d\d', s)} - {'$pid'})))"); do
    r=$(tools/evalseed.sh "$other" "$WT" "$(pwd)/$d/patch.diff" 2>&1 | grep -v whitespace | tail -1 | cut -c1-160)
    echo "$id $other: $r" | tee -a seeded/RESULTS.txt
  done
done
git -C /repo worktree remove --force "$WT"
