#!/bin/sh
# Re-run every stored seed against the check of its own property (and C14 for the stateful ones); writes seeded/RESULTS.txt
cd "$(dirname "$0")/.." || exit 2
WT=/tmp/wt-eval-$$
git -C /repo worktree add -q --detach "$WT" main || exit 2
: > seeded/RESULTS.txt
for d in seeded/*/; do
  id=$(basename "$d"); pid=${id%%-*}
  r=$(tools/evalseed.sh "$pid" "$WT" "$(pwd)/$d/patch.diff" 2>&1 | grep -v whitespace | tail -1 | cut -c1-160)
  echo "$id $pid: $r" | tee -a seeded/RESULTS.txt
done
git -C /repo worktree remove --force "$WT"
